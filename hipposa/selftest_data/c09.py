"""Self-test corpus for C09: text edits on a scratch overlay (never on /repo)."""
TMPL = "hippolyzer/lib/base/templates.py"
SER = "hippolyzer/lib/base/serialization.py"
DT = "hippolyzer/lib/base/datatypes.py"
MSG = "hippolyzer/lib/base/message/message.py"

_D7_GUARD = (
    "        if val < 0:\n"
    "            # Signed field with the sign bit set, enum.IntFlag can't represent\n"
    "            # negative values without changing them. Leave it as an int.\n"
    "            return val\n"
    "        return self.flag_cls(val)\n"
)

_SERIALIZE_VAR = (
    "        serializer = self.get_serializer(var_name)\n"
    "        serialized = serializer.serialize(self, val)\n"
    "        self[var_name] = serialized\n"
    "        self._ser_cache[var_name] = val\n"
)

_SETITEM_POP = (
    "        if key in self._ser_cache:\n"
    "            self._ser_cache.pop(key)\n"
)

VARIANTS = [
    # ---------------------------------------------------------------- R1
    {"name": "R1 flag serializer registered on a Variable (string) variable", "file": TMPL, "expect": "C09.R1",
     "old": '@se.flag_field_serializer("ParcelProperties", "ParcelData", "ParcelFlags")\n',
     "new": '@se.flag_field_serializer("ParcelProperties", "ParcelData", "ParcelFlags")\n'
            '@se.flag_field_serializer("ParcelProperties", "ParcelData", "Name")\n'},
    {"name": "R1 byte template registered on a U32 variable", "file": TMPL, "expect": "C09.R1",
     "old": '@se.subfield_serializer("AgentThrottle", "Throttle", "Throttles")\n',
     "new": '@se.subfield_serializer("AgentThrottle", "Throttle", "Throttles")\n'
            '@se.subfield_serializer("AgentThrottle", "Throttle", "GenCounter")\n'},
    {"name": "R1 numeric date adapter registered on a Variable variable", "file": TMPL, "expect": "C09.R1",
     "old": '@se.subfield_serializer("ParcelProperties", "ParcelData", "ClaimDate")\n',
     "new": '@se.subfield_serializer("ParcelProperties", "ParcelData", "ClaimDate")\n'
            '@se.subfield_serializer("ParcelProperties", "ParcelData", "Name")\n'},
    {"name": "R1 bytes adapter (bitmap) registered on an integer variable", "file": TMPL, "expect": "C09.R1",
     "old": '@se.subfield_serializer("ParcelProperties", "ParcelData", "Bitmap")\n',
     "new": '@se.subfield_serializer("ParcelProperties", "ParcelData", "Bitmap")\n'
            '@se.subfield_serializer("ParcelProperties", "ParcelData", "ParcelFlags")\n'},
    {"name": "R1 permission helper also covers a string variable", "file": TMPL, "expect": "C09.R1",
     "old": 'for flag_type in {"EveryoneMask", "BaseMask", "OwnerMask", "GroupMask", "NextOwnerMask"}:',
     "new": 'for flag_type in {"EveryoneMask", "BaseMask", "OwnerMask", "GroupMask", "NextOwnerMask", "Name"}:'},
    {"name": "P R1 reorder decorators", "file": TMPL, "expect": "silent",
     "old": '@se.subfield_serializer("MeanCollisionAlert", "MeanCollision", "Time")\n'
            '@se.subfield_serializer("ParcelProperties", "ParcelData", "ClaimDate")\n',
     "new": '@se.subfield_serializer("ParcelProperties", "ParcelData", "ClaimDate")\n'
            '@se.subfield_serializer("MeanCollisionAlert", "MeanCollision", "Time")\n'},
    {"name": "P R1 helper iterates a tuple, renamed loop variable", "file": TMPL, "expect": "silent",
     "old": '        for flag_type in {"EveryoneMask", "BaseMask", "OwnerMask", "GroupMask", "NextOwnerMask"}:\n'
            '            se.flag_field_serializer(message_name, block_name, flag_type)(flag_cls)\n',
     "new": '        for mask_name in ("EveryoneMask", "BaseMask", "OwnerMask", "GroupMask", "NextOwnerMask"):\n'
            '            se.flag_field_serializer(message_name, block_name, mask_name)(flag_cls)\n'},
    {"name": "X R1 wrong but same-kind enum registered", "file": TMPL, "expect": "miss",
     "old": '@se.enum_field_serializer("ParcelProperties", "ParcelData", "LandingType")\n',
     "new": '@se.enum_field_serializer("ParcelProperties", "ParcelData", "LandingType")\n'
            '@se.enum_field_serializer("ParcelProperties", "ParcelData", "Category")\n'},

    # ---------------------------------------------------------------- R2
    {"name": "R2 D7 re-introduced: IntFlag.decode builds flag_cls from negatives", "file": SER, "expect": "C09.R2",
     "old": _D7_GUARD, "new": "        return self.flag_cls(val)\n"},
    {"name": "R2 D7 re-introduced: IntFlag.encode ORs enum members", "file": SER, "expect": "C09.R2",
     "old": "            new_val |= int(v)\n", "new": "            new_val |= v\n"},
    {"name": "R2 guard on the wrong sign", "file": SER, "expect": "C09.R2",
     "old": _D7_GUARD,
     "new": "        if val > 0:\n            return val\n        return self.flag_cls(val)\n"},
    {"name": "R2 pod leftover loses its sign (abs)", "file": DT, "expect": "C09.R2",
     "old": "    extra = (int(left_over),) if left_over else ()\n",
     "new": "    extra = (abs(int(left_over)),) if left_over else ()\n"},
    {"name": "R2 pod leftover split per bit (seed 2 shape)", "file": DT, "expect": "C09.R2",
     "old": "    extra = (int(left_over),) if left_over else ()\n",
     "new": "    extra = tuple(1 << i for i in range(int(left_over).bit_length()) if (left_over >> i) & 1)\n"},
    {"name": "R2 pod path masks the raw value before flags_to_pod", "file": SER, "expect": "C09.R2",
     "old": "            return dtypes.flags_to_pod(self.flag_cls, val)\n",
     "new": "            return dtypes.flags_to_pod(self.flag_cls, val & 0xFFFFFFFF)\n"},
    {"name": "R2 IntEnum.decode constructs non-members", "file": SER, "expect": "C09.R2",
     "old": "        if val in iter(self.enum_cls):\n            val = self.enum_cls(val)\n",
     "new": "        if val is not None:\n            val = self.enum_cls(val)\n"},
    {"name": "P R2 guard expressed as val >= 0", "file": SER, "expect": "silent",
     "old": _D7_GUARD,
     "new": "        if val >= 0:\n            return self.flag_cls(val)\n        return val\n"},
    {"name": "P R2 rename accumulator in encode", "expect": "silent",
     "edits": [{"file": SER, "old": "new_val", "new": "acc", "all": True}]},
    {"name": "P R2 flags_to_pod builds a list with append", "file": DT, "expect": "silent",
     "old": "    extra = (int(left_over),) if left_over else ()\n"
            "    return tuple(flag.name for flag in iter(flag_cls) if val & flag.value) + extra\n",
     "new": "    names = [flag.name for flag in iter(flag_cls) if val & flag.value]\n"
            "    if left_over:\n"
            "        names.append(int(left_over))\n"
            "    return tuple(names)\n"},
    {"name": "P R2 decode through an extracted helper", "file": SER, "expect": "silent",
     "old": _D7_GUARD,
     "new": "        return self._to_flags(val)\n\n"
            "    def _to_flags(self, raw):\n"
            "        if raw < 0:\n"
            "            return raw\n"
            "        return self.flag_cls(raw)\n"},

    # ---------------------------------------------------------------- R3
    {"name": "R3 date decode through date.fromtimestamp (local)", "file": TMPL, "expect": "C09.R3",
     "old": "return datetime.datetime.fromtimestamp(val / self._multiplier).isoformat()",
     "new": "return datetime.date.fromtimestamp(val / self._multiplier).isoformat()"},
    {"name": "R3 date encode through time.mktime", "expect": "C09.R3",
     "edits": [{"file": TMPL, "old": "import math\nimport zlib\n", "new": "import math\nimport time\nimport zlib\n"},
               {"file": TMPL, "old": "return int(datetime.datetime.fromisoformat(val).timestamp() * self._multiplier)",
                "new": "return int(time.mktime(datetime.datetime.fromisoformat(val).timetuple()) * self._multiplier)"}]},
    {"name": "R3 encode re-reads a parsed value through astimezone()", "file": TMPL, "expect": "C09.R3",
     "old": "return int(datetime.datetime.fromisoformat(val).timestamp() * self._multiplier)",
     "new": "parsed = datetime.datetime.fromisoformat(val)\n"
            "        return int(parsed.astimezone(datetime.timezone.utc).timestamp() * self._multiplier)"},
    {"name": "P R3 rename the raw parameter (known key stays the same)", "file": TMPL, "expect": "silent",
     "old": "    def decode(self, val: Any, ctx: Optional[se.ParseContext], pod: bool = False) -> Any:\n"
            "        return datetime.datetime.fromtimestamp(val / self._multiplier).isoformat()",
     "new": "    def decode(self, raw: Any, ctx: Optional[se.ParseContext], pod: bool = False) -> Any:\n"
            "        return datetime.datetime.fromtimestamp(raw / self._multiplier).isoformat()"},
    {"name": "P R3 decode made zone independent", "file": TMPL, "expect": "silent",
     "old": "return datetime.datetime.fromtimestamp(val / self._multiplier).isoformat()",
     "new": "return datetime.datetime.fromtimestamp(val / self._multiplier, tz=datetime.timezone.utc).isoformat()"},
    {"name": "P R3 encode normalises naive values first", "file": TMPL, "expect": "silent",
     "old": "return int(datetime.datetime.fromisoformat(val).timestamp() * self._multiplier)",
     "new": "parsed = datetime.datetime.fromisoformat(val)\n"
            "        if parsed.tzinfo is None:\n"
            "            parsed = parsed.replace(tzinfo=datetime.timezone.utc)\n"
            "        return int(parsed.timestamp() * self._multiplier)"},

    # ---------------------------------------------------------------- R4
    {"name": "R4 Flags moved after the first CompressedOption field", "expect": "C09.R4",
     "edits": [{"file": TMPL, "old": '        "Flags": se.IntFlag(CompressedFlags, se.U32),\n', "new": ""},
               {"file": TMPL, "old": '        "ParentID": CompressedOption(CompressedFlags.PARENT_ID, se.U32),\n',
                "new": '        "ParentID": CompressedOption(CompressedFlags.PARENT_ID, se.U32),\n'
                       '        "Flags": se.IntFlag(CompressedFlags, se.U32),\n'}]},
    {"name": "R4 ENUM_FIELD typo", "file": TMPL, "expect": "C09.R4",
     "old": '    ENUM_FIELD = "Type"\n', "new": '    ENUM_FIELD = "Typo"\n'},
    {"name": "R4 FLAG_FIELD names the payload variable itself", "file": TMPL, "expect": "C09.R4",
     "old": '    FLAG_FIELD = "Type"\n', "new": '    FLAG_FIELD = "Data"\n'},
    {"name": "R4 particle option reads a field that is never parsed", "file": TMPL, "expect": "C09.R4",
     "old": 'super().__init__("PDataFlags", PARTDATA_FLAGS, flag_val, spec)',
     "new": 'super().__init__("PDataFlag", PARTDATA_FLAGS, flag_val, spec)'},
    {"name": "R4 puppetry mask declared after the first optional field", "expect": "C09.R4",
     "edits": [{"file": TMPL,
                "old": "    mask: PuppetryEventMask = se.dataclass_field(se.IntFlag(PuppetryEventMask, se.U8))\n", "new": ""},
               {"file": TMPL, "old": "    position: Optional[Vector3] = se.dataclass_field(\n",
                "new": "    mask: PuppetryEventMask = se.dataclass_field(se.IntFlag(PuppetryEventMask, se.U8))\n"
                       "    position: Optional[Vector3] = se.dataclass_field(\n"}]},
    {"name": "R4 object state adapter selects on a field after it", "expect": "C09.R4",
     "edits": [{"file": TMPL, "old": '        "PCode": se.IntEnum(PCode, se.U8),\n', "new": ""},
               {"file": TMPL, "old": '        "CRC": se.U32,\n        "Material": se.IntEnum(MCode, se.U8),\n',
                "new": '        "CRC": se.U32,\n        "PCode": se.IntEnum(PCode, se.U8),\n'
                       '        "Material": se.IntEnum(MCode, se.U8),\n'}]},
    {"name": "P R4 reorder template fields no switch depends on", "file": TMPL, "expect": "silent",
     "old": '        "SoundGain": CompressedOption(CompressedFlags.SOUND, se.F32),\n'
            '        "SoundFlags": CompressedOption(CompressedFlags.SOUND, se.IntFlag(SoundFlags, se.U8)),\n',
     "new": '        "SoundFlags": CompressedOption(CompressedFlags.SOUND, se.IntFlag(SoundFlags, se.U8)),\n'
            '        "SoundGain": CompressedOption(CompressedFlags.SOUND, se.F32),\n'},
    {"name": "P R4 flag field hoisted into a constant", "file": TMPL, "expect": "silent",
     "old": 'class CompressedOption(se.OptionalFlagged):\n    def __init__(self, flag_val, spec):\n'
            '        super().__init__("Flags", se.IntFlag(CompressedFlags, se.U32), flag_val, spec)',
     "new": 'COMPRESSED_FLAGS_SPEC = se.IntFlag(CompressedFlags, se.U32)\n\n\n'
            'class CompressedOption(se.OptionalFlagged):\n    def __init__(self, flag_val, spec):\n'
            '        super().__init__("Flags", COMPRESSED_FLAGS_SPEC, flag_val, spec)'},
    {"name": "X R4 TE exception writer drops entries equal to the default (seed 1, value level)", "file": TMPL,
     "expect": "miss", "old": "            if faces is None:\n                continue\n            writer.write(TEFaceBitfield",
     "new": "            if faces is None or val == default:\n                continue\n            writer.write(TEFaceBitfield"},

    # ---------------------------------------------------------------- R5
    {"name": "R5 __setitem__ keeps the cached decoded value", "file": MSG, "expect": "C09.R5",
     "old": _SETITEM_POP, "new": ""},
    {"name": "R5 cache dropped only for None values", "file": MSG, "expect": "C09.R5",
     "old": _SETITEM_POP,
     "new": "        if key in self._ser_cache and value is None:\n            self._ser_cache.pop(key)\n"},
    {"name": "R5 serialize_var caches before the serializer may fail", "file": MSG, "expect": "C09.R5",
     "old": _SERIALIZE_VAR,
     "new": "        serializer = self.get_serializer(var_name)\n"
            "        self._ser_cache[var_name] = val\n"
            "        serialized = serializer.serialize(self, val)\n"
            "        self.vars[var_name] = serialized\n"},
    {"name": "R5 serialize_var stores raw directly, cache of a previous value survives failure-free path", "file": MSG,
     "expect": "C09.R5",
     "old": _SERIALIZE_VAR,
     "new": "        serializer = self.get_serializer(var_name)\n"
            "        serialized = serializer.serialize(self, val)\n"
            "        self.vars[var_name] = serialized\n"},
    {"name": "P R5 unconditional pop with default", "file": MSG, "expect": "silent",
     "old": _SETITEM_POP, "new": "        self._ser_cache.pop(key, None)\n"},
    {"name": "P R5 early-return form of the cache drop", "file": MSG, "expect": "silent",
     "old": _SETITEM_POP,
     "new": "        if key not in self._ser_cache:\n            return\n        del self._ser_cache[key]\n"},
    {"name": "P R5 two stores of serialize_var swapped (cache entry dropped again: slower, not wrong)", "file": MSG,
     "expect": "silent",
     "old": "        self[var_name] = serialized\n        self._ser_cache[var_name] = val\n",
     "new": "        self._ser_cache[var_name] = val\n        self[var_name] = serialized\n"},
    {"name": "P R5 rename locals in serialize_var", "file": MSG, "expect": "silent",
     "old": _SERIALIZE_VAR,
     "new": "        ser = self.get_serializer(var_name)\n"
            "        raw_val = ser.serialize(self, val)\n"
            "        self[var_name] = raw_val\n"
            "        self._ser_cache[var_name] = val\n"},

    # ---------------------------------------------------------------- strengthening round
    {"name": "R3 decode shifts by the process' DST offset constant", "expect": "C09.R3",
     "edits": [{"file": TMPL, "old": "import math\nimport zlib\n", "new": "import math\nimport time\nimport zlib\n"},
               {"file": TMPL, "old": "return datetime.datetime.fromtimestamp(val / self._multiplier).isoformat()",
                "new": "return datetime.datetime.utcfromtimestamp(val / self._multiplier - time.altzone).isoformat()"}]},
    {"name": "R3 zone constant imported by name", "expect": "C09.R3",
     "edits": [{"file": TMPL, "old": "import math\nimport zlib\n", "new": "import math\nfrom time import timezone as _tzoff\nimport zlib\n"},
               {"file": TMPL, "old": "return int(datetime.datetime.fromisoformat(val).timestamp() * self._multiplier)",
                "new": "return int((datetime.datetime.fromisoformat(val).timestamp() - _tzoff + _tzoff) * self._multiplier)"}]},
    {"name": "P R3 time module used for a zone independent call only", "expect": "silent",
     "edits": [{"file": TMPL, "old": "import math\nimport zlib\n", "new": "import math\nimport time\nimport zlib\n"},
               {"file": TMPL, "old": "    def __init__(self, multiplier: int = 1):\n        super(DateAdapter, self).__init__(None)\n",
                "new": "    def __init__(self, multiplier: int = 1):\n        super(DateAdapter, self).__init__(None)\n"
                       "        self._created = time.monotonic()\n"}]},
    {"name": "P R2 IntEnum.decode with the non-member case as a guard clause", "file": SER, "expect": "silent",
     "old": "        if val in iter(self.enum_cls):\n            val = self.enum_cls(val)\n            if pod:\n"
            "                return val.name\n            return val\n        elif self._strict:\n"
            "            raise ValueError(f\"{val} is not a valid {self.enum_cls}\")\n"
            "        # Doesn't exist in the enum, just return an int...\n        return val\n",
     "new": "        if not (val in iter(self.enum_cls)):\n            if self._strict:\n"
            "                raise ValueError(f\"{val} is not a valid {self.enum_cls}\")\n            return val\n"
            "        member = self.enum_cls(val)\n        return member.name if pod else member\n"},

    # ---------------------------------------------------------------- round 3: section tables merged with ** spreads
    {"name": "P R4 optional glow fields moved into a section table spread in place", "expect": "silent",
     "edits": [{"file": TMPL, "old": "PDATA_BLOCK_TEMPLATE = se.Template({\n",
                "new": "_PDATA_GLOW = {\n"
                       "    \"StartGlow\": PartDataOption(ParticleDataFlags.DATA_GLOW, se.QuantizedFloat(se.U8, 0.0, 1.0)),\n"
                       "    \"EndGlow\": PartDataOption(ParticleDataFlags.DATA_GLOW, se.QuantizedFloat(se.U8, 0.0, 1.0)),\n"
                       "}\n\nPDATA_BLOCK_TEMPLATE = se.Template({\n"},
               {"file": TMPL,
                "old": "    \"EndScaleY\": se.FixedPoint(se.U8, 3, 5),\n"
                       "    \"StartGlow\": PartDataOption(ParticleDataFlags.DATA_GLOW, se.QuantizedFloat(se.U8, 0.0, 1.0)),\n"
                       "    \"EndGlow\": PartDataOption(ParticleDataFlags.DATA_GLOW, se.QuantizedFloat(se.U8, 0.0, 1.0)),\n",
                "new": "    \"EndScaleY\": se.FixedPoint(se.U8, 3, 5),\n    **_PDATA_GLOW,\n"}]},
    {"name": "R4 section table with optional fields spread before the flags field", "expect": "C09.R4",
     "edits": [{"file": TMPL, "old": "PDATA_BLOCK_TEMPLATE = se.Template({\n    \"PDataFlags\": PARTDATA_FLAGS,\n",
                "new": "_PDATA_GLOW = {\n"
                       "    \"StartGlow\": PartDataOption(ParticleDataFlags.DATA_GLOW, se.QuantizedFloat(se.U8, 0.0, 1.0)),\n"
                       "    \"EndGlow\": PartDataOption(ParticleDataFlags.DATA_GLOW, se.QuantizedFloat(se.U8, 0.0, 1.0)),\n"
                       "}\n\nPDATA_BLOCK_TEMPLATE = se.Template({\n    **_PDATA_GLOW,\n    \"PDataFlags\": PARTDATA_FLAGS,\n"},
               {"file": TMPL,
                "old": "    \"EndScaleY\": se.FixedPoint(se.U8, 3, 5),\n"
                       "    \"StartGlow\": PartDataOption(ParticleDataFlags.DATA_GLOW, se.QuantizedFloat(se.U8, 0.0, 1.0)),\n"
                       "    \"EndGlow\": PartDataOption(ParticleDataFlags.DATA_GLOW, se.QuantizedFloat(se.U8, 0.0, 1.0)),\n",
                "new": "    \"EndScaleY\": se.FixedPoint(se.U8, 3, 5),\n"}]},

    # ---------------------------------------------------------------- R6 pod forwarding
    {"name": "R6 bitfield members decoded without the pod flag", "file": SER, "expect": "C09.R6",
     "old": "k: self._schema[k].adapter.decode(v, ctx=ctx, pod=pod)", "new": "k: self._schema[k].adapter.decode(v, ctx=ctx)"},
    {"name": "R6 subfield template reader built without the pod flag", "file": SER, "expect": "C09.R6",
     "old": "r = BufferReader(cls.ENDIANNESS, buf, pod=pod)", "new": "r = BufferReader(cls.ENDIANNESS, buf)"},
    {"name": "R6 adapter subfield serializer always asks for the object form", "file": SER, "expect": "C09.R6",
     "old": "return cls.ADAPTER.decode(val, ctx=ParseContext(ctx_obj), pod=pod)",
     "new": "return cls.ADAPTER.decode(val, ctx=ParseContext(ctx_obj), pod=False)"},
    {"name": "P R6 pod passed positionally", "file": SER, "expect": "silent",
     "old": "return cls.ADAPTER.decode(val, ctx=ParseContext(ctx_obj), pod=pod)",
     "new": "return cls.ADAPTER.decode(val, ParseContext(ctx_obj), pod)"},
    {"name": "P R6 pod through a local and a branch", "file": SER, "expect": "silent",
     "old": "        return self._choose_option(ctx).decode(val, ctx=ctx, pod=pod)\n",
     "new": "        option = self._choose_option(ctx)\n        want_pod = bool(pod)\n"
            "        if pod:\n            return option.decode(val, ctx=ctx, pod=True)\n"
            "        return option.decode(val, ctx=ctx, pod=want_pod)\n"},

    # ---------------------------------------------------------------- round 4: sign facts on the pod leftover
    {"name": "R2 pod leftover appended only when it is non-negative", "file": DT, "expect": "C09.R2",
     "old": "    extra = (int(left_over),) if left_over else ()\n"
            "    return tuple(flag.name for flag in iter(flag_cls) if val & flag.value) + extra\n",
     "new": "    names = [flag.name for flag in iter(flag_cls) if val & flag.value]\n"
            "    if left_over >= 1:\n"
            "        names.append(int(left_over))\n"
            "    return tuple(names)\n"},
    {"name": "R2 pod leftover filtered to positive values in a comprehension", "file": DT, "expect": "C09.R2",
     "old": "    extra = (int(left_over),) if left_over else ()\n",
     "new": "    extra = tuple(bits for bits in (int(left_over),) if bits > 0)\n"},
    {"name": "P R2 pod leftover kept whenever it is non-zero (explicit comparison)", "file": DT, "expect": "silent",
     "old": "    extra = (int(left_over),) if left_over else ()\n",
     "new": "    extra = (int(left_over),) if left_over != 0 else ()\n"},

    # ---------------------------------------------------------------- round 5: strict mode / str()-built pod form
    {"name": "R4 extra-params serializer made non-strict (flags-only layout nests in the probe layout)", "file": TMPL,
     "expect": "C09.R4",
     "old": '    ENUM_FIELD = "ParamType"\n    TEMPLATES = EXTRA_PARAM_TEMPLATES\n',
     "new": '    ENUM_FIELD = "ParamType"\n    STRICT = False\n    TEMPLATES = EXTRA_PARAM_TEMPLATES\n'},
    {"name": "P R4 strict mode restated on a subclass", "file": TMPL, "expect": "silent",
     "old": '    ENUM_FIELD = "ParamType"\n    TEMPLATES = EXTRA_PARAM_TEMPLATES\n',
     "new": '    ENUM_FIELD = "ParamType"\n    STRICT = True\n    TEMPLATES = EXTRA_PARAM_TEMPLATES\n'},
    {"name": "R7 pod string renders the class before the type", "file": "hippolyzer/lib/base/namevalue.py", "expect": "C09.R7",
     "old": 'return f"{self.name} {self.type} {self.rw} {self.sendto} {self.value}"',
     "new": 'return f"{self.name} {self.rw} {self.type} {self.sendto} {self.value}"'},
    {"name": "R7 pod string upper-cased for display", "file": "hippolyzer/lib/base/namevalue.py", "expect": "C09.R7",
     "old": 'return f"{self.name} {self.type} {self.rw} {self.sendto} {self.value}"',
     "new": 'return f"{self.name} {self.type} {self.rw} {self.sendto} {self.value}".upper()'},
    {"name": "R7 pod string aligned with two-character separators", "file": "hippolyzer/lib/base/namevalue.py", "expect": "C09.R7",
     "old": 'return f"{self.name} {self.type} {self.rw} {self.sendto} {self.value}"',
     "new": 'return ", ".join((self.name, str(self.type), str(self.rw), str(self.sendto), self.value))'},
    {"name": "P R7 pod string built with join", "file": "hippolyzer/lib/base/namevalue.py", "expect": "silent",
     "old": 'return f"{self.name} {self.type} {self.rw} {self.sendto} {self.value}"',
     "new": 'return " ".join((self.name, str(self.type), str(self.rw), str(self.sendto), self.value))'},
    {"name": "P R7 tab separated pod string (tab is a field terminator too)", "file": "hippolyzer/lib/base/namevalue.py",
     "expect": "silent",
     "old": 'return f"{self.name} {self.type} {self.rw} {self.sendto} {self.value}"',
     "new": 'return f"{self.name}\\t{self.type}\\t{self.rw}\\t{self.sendto}\\t{self.value}"'},

    # ---------------------------------------------------------------- round 6: cache behind a forwarding property
    {"name": "P R5 cache dict renamed, old name kept as a forwarding property", "expect": "silent",
     "edits": [{"file": MSG, "old": "'message_name', '_ser_cache', 'fill_missing',", "new": "'message_name', '_decoded', 'fill_missing',"},
               {"file": MSG, "old": "        self._ser_cache: Dict[str, Any] = {}\n", "new": "        self._decoded: Dict[str, Any] = {}\n"},
               {"file": MSG, "old": "    def get(self, var_name, default: Optional[VAR_TYPE] = None)",
                "new": "    @property\n    def _ser_cache(self):\n        return self._decoded\n\n"
                       "    def get(self, var_name, default: Optional[VAR_TYPE] = None)"}]},
    {"name": "R5 cache behind a forwarding property and no longer dropped on raw stores", "expect": "C09.R5",
     "edits": [{"file": MSG, "old": "'message_name', '_ser_cache', 'fill_missing',", "new": "'message_name', '_decoded', 'fill_missing',"},
               {"file": MSG, "old": "        self._ser_cache: Dict[str, Any] = {}\n", "new": "        self._decoded: Dict[str, Any] = {}\n"},
               {"file": MSG, "old": "    def get(self, var_name, default: Optional[VAR_TYPE] = None)",
                "new": "    @property\n    def _ser_cache(self):\n        return self._decoded\n\n"
                       "    def get(self, var_name, default: Optional[VAR_TYPE] = None)"},
               {"file": MSG, "old": _SETITEM_POP, "new": ""}]},

    # ---------------------------------------------------------------- round 6: memo published before it is complete
    {"name": "R8 size memo reset to a placeholder before the walk", "file": SER, "expect": "C09.R8",
     "old": "        sum_bytes = 0\n        for _, field_type in self._template_spec.items():\n",
     "new": "        self._size = None\n        sum_bytes = 0\n        for _, field_type in self._template_spec.items():\n"},
    {"name": "P R8 size memo computed by a helper and stored once", "file": SER, "expect": "silent",
     "old": "        sum_bytes = 0\n        for _, field_type in self._template_spec.items():\n"
            "            size = field_type.calc_size()\n            if size is None:\n"
            "                sum_bytes = None\n                break\n            sum_bytes += size\n"
            "        self._size = sum_bytes\n        return self._size\n",
     "new": "        self._size = self._walk_sizes()\n        return self._size\n\n"
            "    def _walk_sizes(self):\n        total = 0\n"
            "        for field_type in self._template_spec.values():\n"
            "            size = field_type.calc_size()\n            if size is None:\n"
            "                return None\n            total += size\n        return total\n"},

    # ---------------------------------------------------------------- round 7: normalising constructor hooks
    {"name": "R9 name-value dataclass trims its value on construction", "file": "hippolyzer/lib/base/namevalue.py",
     "expect": "C09.R9",
     "old": "    def deserialize(self) -> Any:\n",
     "new": "    def __post_init__(self):\n        self.value = self.value.strip()\n\n    def deserialize(self) -> Any:\n"},
    {"name": "P R9 constructor hook that only prepares a non-serialized attribute", "file": "hippolyzer/lib/base/namevalue.py",
     "expect": "silent",
     "old": "    def deserialize(self) -> Any:\n",
     "new": "    def __post_init__(self):\n        self._parsed_cache = None\n\n    def deserialize(self) -> Any:\n"},

    # ---------------------------------------------------------------- D36: truth test of an ndarray object form
    {"name": "R10 D36 re-introduced: BitmapAdapter.encode truth-tests the decoded ndarray", "file": TMPL, "expect": "C09.R10",
     "old": "        if len(val) and isinstance(val[0], bytes):\n", "new": "        if val and isinstance(val[0], bytes):\n"},
    {"name": "R10 empty-bitmap short cut through `not val`", "file": TMPL, "expect": "C09.R10",
     "old": "        if len(val) and isinstance(val[0], bytes):\n",
     "new": "        if not val:\n            return b''\n        if isinstance(val[0], bytes):\n"},
    {"name": "P R10 explicit length comparison", "file": TMPL, "expect": "silent",
     "old": "        if len(val) and isinstance(val[0], bytes):\n", "new": "        if len(val) > 0 and isinstance(val[0], bytes):\n"},
    {"name": "P R10 None test and size test are array safe", "file": TMPL, "expect": "silent",
     "old": "        if len(val) and isinstance(val[0], bytes):\n",
     "new": "        if val is not None and len(val) != 0 and isinstance(val[0], bytes):\n"},

    # round 8: EAFP enum decode vs. _missing_ hooks
    {'name': 'R2 EAFP enum decode while the enum base class maps unknown values onto a member',
     'expect': 'C09.R2',
     'edits': [{'file': 'hippolyzer/lib/base/serialization.py',
                'old': '        if val in iter(self.enum_cls):\n'
                       '            val = self.enum_cls(val)\n'
                       '            if pod:\n'
                       '                return val.name\n'
                       '            return val\n'
                       '        elif self._strict:\n'
                       '            raise ValueError(f"{val} is not a valid {self.enum_cls}")\n'
                       "        # Doesn't exist in the enum, just return an int...\n"
                       '        return val\n',
                'new': '        try:\n'
                       '            member = self.enum_cls(val)\n'
                       '        except ValueError:\n'
                       '            if self._strict:\n'
                       '                raise\n'
                       '            return val\n'
                       '        return member.name if pod else member\n'},
               {'file': 'hippolyzer/lib/base/datatypes.py',
                'old': "class IntEnum(enum.IntEnum):\n    # Give a special repr() that'll eval in a REPL.\n",
                'new': 'class IntEnum(enum.IntEnum):\n'
                       '    @classmethod\n'
                       '    def _missing_(cls, value):\n'
                       '        return next(iter(cls), None)\n'
                       '\n'
                       "    # Give a special repr() that'll eval in a REPL.\n"}]},
    {'name': 'P R2 EAFP enum decode, construction still raises for unknown values',
     'file': 'hippolyzer/lib/base/serialization.py',
     'expect': 'silent',
     'old': '        if val in iter(self.enum_cls):\n'
            '            val = self.enum_cls(val)\n'
            '            if pod:\n'
            '                return val.name\n'
            '            return val\n'
            '        elif self._strict:\n'
            '            raise ValueError(f"{val} is not a valid {self.enum_cls}")\n'
            "        # Doesn't exist in the enum, just return an int...\n"
            '        return val\n',
     'new': '        try:\n'
            '            member = self.enum_cls(val)\n'
            '        except ValueError:\n'
            '            if self._strict:\n'
            '                raise\n'
            '            return val\n'
            '        return member.name if pod else member\n'},
    {'name': 'P R2 _missing_ hook with the membership-tested decode (never reached for unknown values)',
     'file': 'hippolyzer/lib/base/datatypes.py',
     'expect': 'silent',
     'old': "class IntEnum(enum.IntEnum):\n    # Give a special repr() that'll eval in a REPL.\n",
     'new': 'class IntEnum(enum.IntEnum):\n'
            '    @classmethod\n'
            '    def _missing_(cls, value):\n'
            '        return next(iter(cls), None)\n'
            '\n'
            "    # Give a special repr() that'll eval in a REPL.\n"},

    # audit round (D100-D102): anchored on the FIXED text, inapplicable until the fixes are committed
    {'name': 'R11 D100 re-introduced: date encode truncates the float product again',
     'file': 'hippolyzer/lib/base/templates.py',
     'expect': 'C09.R11',
     'old': '        secs = round(when.replace(microsecond=0).timestamp())\n'
            '        return secs * self._multiplier + when.microsecond * self._multiplier // 1_000_000\n',
     'new': '        return int(when.timestamp() * self._multiplier)\n'},
    {'name': 'P R11 integer date arithmetic with renamed locals',
     'file': 'hippolyzer/lib/base/templates.py',
     'expect': 'silent',
     'old': '        secs = round(when.replace(microsecond=0).timestamp())\n'
            '        return secs * self._multiplier + when.microsecond * self._multiplier // 1_000_000\n',
     'new': '        whole = round(when.replace(microsecond=0).timestamp())\n'
            '        ticks = when.microsecond * self._multiplier // 1_000_000\n'
            '        return whole * self._multiplier + ticks\n'},
    {'name': 'R12 D101 re-introduced: out-of-range stamps raise again',
     'file': 'hippolyzer/lib/base/templates.py',
     'expect': 'C09.R12',
     'old': '        try:\n'
            '            when = datetime.datetime.fromtimestamp(secs)\n'
            '        except (ValueError, OverflowError, OSError):\n'
            '            # Further out than `datetime` reaches. Same convention as the enum\n'
            "            # adapters, what can't be prettified stays a plain number.\n"
            '            return val\n',
     'new': '        when = datetime.datetime.fromtimestamp(secs)\n'},
    {'name': 'R12 date encode no longer takes the bare number back',
     'file': 'hippolyzer/lib/base/templates.py',
     'expect': 'C09.R12',
     'old': '        if isinstance(val, int):\n'
            '            return val\n'
            '        when = datetime.datetime.fromisoformat(val)\n',
     'new': '        when = datetime.datetime.fromisoformat(val)\n'},
    {'name': 'P R12 out-of-range fall-back catching Exception',
     'file': 'hippolyzer/lib/base/templates.py',
     'expect': 'silent',
     'old': '        except (ValueError, OverflowError, OSError):\n',
     'new': '        except Exception:\n'},
    {'name': 'R13 D102 re-introduced: empty body still gets a terminator',
     'file': 'hippolyzer/lib/base/serialization.py',
     'expect': 'C09.R13',
     'old': '            body = BufferWriter(writer.endianness)\n'
            '            body.write(self._spec, val, ctx=ctx)\n'
            '            if not body.buffer:\n'
            '                return\n',
     'new': ''},
    {'name': 'P R13 emptiness of the body tested with len()',
     'file': 'hippolyzer/lib/base/serialization.py',
     'expect': 'silent',
     'old': '            if not body.buffer:\n                return\n',
     'new': '            if len(body.buffer) == 0:\n                return\n'},
]


# ---------------------------------------------------------------- re-anchored after the audit fixes 0a35580 / 33dd984
# (DateAdapter was rewritten with integer arithmetic and an out-of-range fall-back; the R3 variants below replace
# the ones written against the old one-line decode / encode)
_STALE = {
    "R3 date decode through date.fromtimestamp (local)",
    "R3 date encode through time.mktime",
    "R3 encode re-reads a parsed value through astimezone()",
    "P R3 rename the raw parameter (known key stays the same)",
    "P R3 decode made zone independent",
    "P R3 encode normalises naive values first",
    "R3 decode shifts by the process' DST offset constant",
    "R3 zone constant imported by name",
}
_DEC = "            when = datetime.datetime.fromtimestamp(secs)\n"
_ENC_SECS = "        secs = round(when.replace(microsecond=0).timestamp())\n"
_IMP = {"file": TMPL, "old": "import math\nimport zlib\n", "new": "import math\nimport time\nimport zlib\n"}
_DEC_BLOCK = (
    "    def decode(self, val: Any, ctx: Optional[se.ParseContext], pod: bool = False) -> Any:\n"
    "        # Whole seconds and the sub-second part are kept apart, a float of seconds\n"
    "        # can't hold a microsecond stamp exactly\n"
    "        secs, frac = divmod(val, self._multiplier)\n"
    "        try:\n"
    "            when = datetime.datetime.fromtimestamp(secs)\n"
    "        except (ValueError, OverflowError, OSError):\n"
    "            # Further out than `datetime` reaches. Same convention as the enum\n"
    "            # adapters, what can't be prettified stays a plain number.\n"
    "            return val\n"
)
VARIANTS = [v for v in VARIANTS if v["name"] not in _STALE] + [
    {"name": "R3 date decode through date.fromtimestamp (local)", "file": TMPL, "expect": "C09.R3",
     "old": _DEC,
     "new": "            when = datetime.datetime.combine(datetime.date.fromtimestamp(secs), datetime.time())\n"},
    {"name": "R3 date encode through time.mktime", "expect": "C09.R3",
     "edits": [_IMP, {"file": TMPL, "old": _ENC_SECS,
                      "new": "        secs = round(time.mktime(when.replace(microsecond=0).timetuple()))\n"}]},
    {"name": "R3 encode re-reads a parsed value through astimezone()", "file": TMPL, "expect": "C09.R3",
     "old": _ENC_SECS,
     "new": "        secs = round(when.replace(microsecond=0).astimezone(datetime.timezone.utc).timestamp())\n"},
    {"name": "P R3 rename the raw parameter (known key stays the same)", "file": TMPL, "expect": "silent",
     "old": _DEC_BLOCK,
     "new": _DEC_BLOCK.replace("self, val: Any", "self, raw: Any").replace("divmod(val,", "divmod(raw,")
                      .replace("return val\n", "return raw\n")},
    {"name": "P R3 decode made zone independent", "file": TMPL, "expect": "silent",
     "old": _DEC, "new": "            when = datetime.datetime.fromtimestamp(secs, tz=datetime.timezone.utc)\n"},
    {"name": "P R3 encode normalises naive values first", "file": TMPL, "expect": "silent",
     "old": "        when = datetime.datetime.fromisoformat(val)\n" + _ENC_SECS,
     "new": "        when = datetime.datetime.fromisoformat(val)\n"
            "        if when.tzinfo is None:\n"
            "            when = when.replace(tzinfo=datetime.timezone.utc)\n"
            "        secs = round(when.timestamp())\n"},
    {"name": "R3 decode shifts by the process' DST offset constant", "expect": "C09.R3",
     "edits": [_IMP, {"file": TMPL, "old": _DEC,
                      "new": "            when = datetime.datetime.utcfromtimestamp(secs - time.altzone)\n"}]},
    {"name": "R3 zone constant imported by name", "expect": "C09.R3",
     "edits": [{"file": TMPL, "old": "import math\nimport zlib\n",
                "new": "import math\nfrom time import timezone as _tzoff\nimport zlib\n"},
               {"file": TMPL, "old": _ENC_SECS,
                "new": "        secs = round(when.replace(microsecond=0).timestamp()) - _tzoff + _tzoff\n"}]},
]

# second audit round (D118, D119): anchored on the FIXED text
VARIANTS = VARIANTS + [
    {'name': 'R14 D118 re-introduced: date text handed out without checking that it encodes back',
     'file': 'hippolyzer/lib/base/templates.py',
     'expect': 'C09.R14',
     'old': '            if self.encode(text, ctx) != val:\n                return val\n',
     'new': ''},
    {'name': 'P R14 round-trip check with the operands swapped',
     'file': 'hippolyzer/lib/base/templates.py',
     'expect': 'silent',
     'old': '            if self.encode(text, ctx) != val:\n                return val\n',
     'new': '            if val != self.encode(text, ctx):\n                return val\n'},
    {'name': "R5 D119 re-introduced: only the assigned variable's cache entry is dropped",
     'file': 'hippolyzer/lib/base/message/message.py',
     'expect': 'C09.R5',
     'old': '        self._ser_cache.clear()\n\n    def get_serializer',
     'new': '        self._ser_cache.pop(key, None)\n\n    def get_serializer'},
    {'name': 'P R5 whole cache replaced by a fresh dict',
     'file': 'hippolyzer/lib/base/message/message.py',
     'expect': 'silent',
     'old': '        self._ser_cache.clear()\n\n    def get_serializer',
     'new': '        self._ser_cache = {}\n\n    def get_serializer'},
]


# ---------------------------------------------------------------- re-anchored after the second audit round (1fe0486, 63fcb1b)
# DateAdapter.decode now verifies its text with encode(): any zone-dependent call inside the pair is harmless by
# construction, so the R3 variants on it are breaking only together with the removal of that check.  Block.__setitem__
# clears the whole cache: keyed drops are breaking now.
_STALE2 = {
    "R5 __setitem__ keeps the cached decoded value",
    "R5 cache dropped only for None values",
    "P R5 unconditional pop with default",
    "P R5 early-return form of the cache drop",
    "R5 cache behind a forwarding property and no longer dropped on raw stores",
    "R12 D101 re-introduced: out-of-range stamps raise again",
    "P R3 rename the raw parameter (known key stays the same)",
    "R3 date decode through date.fromtimestamp (local)",
    "R3 date encode through time.mktime",
    "R3 encode re-reads a parsed value through astimezone()",
    "R3 decode shifts by the process' DST offset constant",
    "R3 zone constant imported by name",
}
_GUARD = "            if self.encode(text, ctx) != val:\n                return val\n"
_NOGUARD = {"file": TMPL, "old": _GUARD, "new": ""}
_CLEAR = "        self._ser_cache.clear()\n\n    def get_serializer"
_FWD_EDITS = [
    {"file": MSG, "old": "'message_name', '_ser_cache', 'fill_missing',", "new": "'message_name', '_decoded', 'fill_missing',"},
    {"file": MSG, "old": "        self._ser_cache: Dict[str, Any] = {}\n", "new": "        self._decoded: Dict[str, Any] = {}\n"},
    {"file": MSG, "old": "    def get(self, var_name, default: Optional[VAR_TYPE] = None)",
     "new": "    @property\n    def _ser_cache(self):\n        return self._decoded\n\n"
            "    def get(self, var_name, default: Optional[VAR_TYPE] = None)"},
]
VARIANTS = [v for v in VARIANTS if v["name"] not in _STALE2] + [
    # R5
    {"name": "R5 __setitem__ keeps the cached decoded values", "file": MSG, "expect": "C09.R5",
     "old": _CLEAR, "new": "\n    def get_serializer"},
    {"name": "R5 cache cleared only for None values", "file": MSG, "expect": "C09.R5",
     "old": _CLEAR, "new": "        if value is None:\n            self._ser_cache.clear()\n\n    def get_serializer"},
    {"name": "R5 only the assigned key is dropped, guarded by a membership test", "file": MSG, "expect": "C09.R5",
     "old": _CLEAR, "new": "        if key in self._ser_cache:\n            del self._ser_cache[key]\n\n    def get_serializer"},
    {"name": "P R5 cache cleared through the block's own invalidate_caches()", "file": MSG, "expect": "silent",
     "old": _CLEAR, "new": "        self.invalidate_caches()\n\n    def get_serializer"},
    {"name": "P R5 early-return form: nothing to clear in an empty cache", "file": MSG, "expect": "silent",
     "old": _CLEAR,
     "new": "        if not self._ser_cache:\n            return\n        self._ser_cache.clear()\n\n    def get_serializer"},
    {"name": "R5 cache behind a forwarding property and no longer cleared on raw stores", "expect": "C09.R5",
     "edits": _FWD_EDITS + [{"file": MSG, "old": _CLEAR, "new": "\n    def get_serializer"}]},
    # R12
    {"name": "R12 D101 re-introduced: out-of-range stamps raise again", "file": TMPL, "expect": "C09.R12",
     "old": "        except (ValueError, OverflowError, OSError):\n", "new": "        except OSError:\n"},
    # R3 / R14 on the date adapter
    {"name": "P R3 rename the raw parameter of the date decoder", "file": TMPL, "expect": "silent",
     "old": "    def decode(self, val: Any, ctx: Optional[se.ParseContext], pod: bool = False) -> Any:\n"
            "        # Whole seconds and the sub-second part are kept apart, a float of seconds\n"
            "        # can't hold a microsecond stamp exactly\n"
            "        secs, frac = divmod(val, self._multiplier)\n",
     "new": "    def decode(self, val: Any, ctx: Optional[se.ParseContext], pod: bool = False) -> Any:\n"
            "        stamp = val\n"
            "        secs, frac = divmod(stamp, self._multiplier)\n"},
    {"name": "R3 date decode through date.fromtimestamp, unchecked", "expect": "C09.R3",
     "edits": [_NOGUARD, {"file": TMPL, "old": _DEC,
                          "new": "            when = datetime.datetime.combine(datetime.date.fromtimestamp(secs), datetime.time())\n"}]},
    {"name": "R3 date encode through time.mktime, unchecked", "expect": "C09.R3",
     "edits": [_NOGUARD, _IMP, {"file": TMPL, "old": _ENC_SECS,
                                "new": "        secs = round(time.mktime(when.replace(microsecond=0).timetuple()))\n"}]},
    {"name": "R3 decode shifts by the process' DST offset constant, unchecked", "expect": "C09.R3",
     "edits": [_NOGUARD, _IMP, {"file": TMPL, "old": _DEC,
                                "new": "            when = datetime.datetime.utcfromtimestamp(secs - time.altzone)\n"}]},
    {"name": "P R3 date encode through time.mktime while decode verifies the round trip", "expect": "silent",
     "edits": [_IMP, {"file": TMPL, "old": _ENC_SECS,
                      "new": "        secs = round(time.mktime(when.replace(microsecond=0).timetuple()))\n"}]},
]
