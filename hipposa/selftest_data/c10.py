"""Self-test corpus for C10: text edits on a scratch overlay (never on /repo)."""
SER = "hippolyzer/lib/base/serialization.py"
TMPL = "hippolyzer/lib/base/templates.py"
ANIM = "hippolyzer/lib/base/llanim.py"
MESH = "hippolyzer/lib/base/mesh.py"

_ENC_TAIL = (
    "        val += nudge\n"
    "        val -= lower\n"
    "        val /= delta\n"
    "        val /= self.step_mag\n"
    "        val = int(round(val))\n"
    "        return val + self.prim_min\n"
)

VARIANTS = [
    # ---------------------------------------------------------------- R1
    {"name": "R1 encoder truncates instead of rounding", "file": SER, "expect": "C10.R1",
     "old": "        val = int(round(val))\n", "new": "        val = int(val)\n"},
    {"name": "R1 decoder drops the signed offset", "file": SER, "expect": "C10.R1",
     "old": "        val -= self.prim_min\n        val *= self.step_mag\n", "new": "        val *= self.step_mag\n"},
    {"name": "R1 numpy encoder casts without rint", "file": SER, "expect": "C10.R1",
     "old": "        return np.rint(val).astype(self.dtype)\n", "new": "        return val.astype(self.dtype)\n"},
    {"name": "R1 fixed point encoder truncates", "file": SER, "expect": "C10.R1",
     "old": "return self._ser_spec.serialize(min(round(val), self._ser_spec.max_val), writer, ctx)",
     "new": "return self._ser_spec.serialize(min(int(val), self._ser_spec.max_val), writer, ctx)"},
    {"name": "R1 fixed point decoder scales by frac_bits instead of 2^frac_bits", "file": SER, "expect": "C10.R1",
     "old": "        fixed_val /= (1 << self._frac_bits)\n", "new": "        fixed_val /= self._frac_bits\n"},
    {"name": "R1 QuantizedFloat.encode swaps the range", "file": SER, "expect": "C10.R1",
     "old": "return self._float_to_quantized(val, self.lower, self.upper)",
     "new": "return self._float_to_quantized(val, self.upper, self.lower)"},
    {"name": "R1 key-frame time decoded against a fixed range", "file": ANIM, "expect": "C10.R1",
     "old": "return self._quantized_to_float(val, 0.0, self._get_upper_limit(ctx))",
     "new": "return self._quantized_to_float(val, 0.0, 1.0)"},
    {"name": "R1 clamp applied after the offset", "expect": "C10.R1",
     "edits": [{"file": SER, "old": "        val = min(max(val, lower), upper)\n\n        # Zero is in the exact middle",
                "new": "        # Zero is in the exact middle"},
               {"file": SER, "old": "        val += nudge\n        val -= lower\n",
                "new": "        val += nudge\n        val -= lower\n        val = min(max(val, lower), upper)\n"}]},
    {"name": "R1 encoder wraps with a modulo", "file": SER, "expect": "C10.R1",
     "old": "        val /= self.step_mag\n        val = int(round(val))\n",
     "new": "        val /= self.step_mag\n        val = int(round(val)) % (1 << 16)\n"},
    {"name": "P R1 encoder tail as a single expression", "file": SER, "expect": "silent",
     "old": _ENC_TAIL,
     "new": "        val = (val + nudge - lower) / delta / self.step_mag\n"
            "        return int(round(val)) + self.prim_min\n"},
    {"name": "P R1 commuting scale factors reordered in decode", "file": SER, "expect": "silent",
     "old": "        val *= self.step_mag\n        val *= delta\n", "new": "        val *= delta\n        val *= self.step_mag\n"},
    {"name": "P R1 fixed point scale hoisted into a local", "file": SER, "expect": "silent",
     "old": "        val *= 1 << self._frac_bits\n",
     "new": "        scale = 1 << self._frac_bits\n        val *= scale\n"},
    {"name": "P R1 fixed point clamp extracted into a helper", "file": SER, "expect": "silent",
     "old": "    def serialize(self, val: float, writer: BufferWriter, ctx):\n"
            "        val = min(max(val, self._min_val), self._max_val)\n",
     "new": "    def _clamp(self, val):\n"
            "        return min(max(val, self._min_val), self._max_val)\n\n"
            "    def serialize(self, val: float, writer: BufferWriter, ctx):\n"
            "        val = self._clamp(val)\n"},
    {"name": "P R1 numpy encoder: local renamed, explicit two-step return", "file": SER, "expect": "silent",
     "old": "        val -= self.lower\n        val /= delta\n        val /= self.step_mag\n"
            "        return np.rint(val).astype(self.dtype)\n",
     "new": "        val -= self.lower\n        val /= delta\n        val /= self.step_mag\n"
            "        val = np.rint(val)\n        return val.astype(self.dtype)\n"},
    {"name": "P R1 fixed point decoder in early-return form", "file": SER, "expect": "silent",
     "old": "        if self._signed:\n            fixed_val -= self._max_val\n        return fixed_val\n",
     "new": "        if not self._signed:\n            return fixed_val\n        fixed_val -= self._max_val\n        return fixed_val\n"},
    {"name": "P R1 rename the tracked local and the scale local", "file": SER, "expect": "silent",
     "old": "        fixed_val = float(self._ser_spec.deserialize(reader, ctx))\n"
            "        fixed_val /= (1 << self._frac_bits)\n"
            "        if self._signed:\n            fixed_val -= self._max_val\n        return fixed_val\n",
     "new": "        raw = float(self._ser_spec.deserialize(reader, ctx))\n"
            "        raw /= (1 << self._frac_bits)\n"
            "        if self._signed:\n            raw -= self._max_val\n        return raw\n"},
    {"name": "X R1 nudge sign flipped (value level)", "file": SER, "expect": "miss",
     "old": "            nudge = math.copysign(nudge, val)\n", "new": "            nudge = math.copysign(nudge, -val)\n"},
    {"name": "X R1 snap test made non-strict (value level)", "file": SER, "expect": "miss",
     "old": "if self.zero_median and math.fabs(val) < max_error:", "new": "if self.zero_median and math.fabs(val) <= max_error:"},

    # ---------------------------------------------------------------- R2
    {"name": "R2 step_mag off by one code", "file": SER, "expect": "C10.R2",
     "old": "self.step_mag = 1.0 / (prim_spec.max_val - prim_spec.min_val)",
     "new": "self.step_mag = 1.0 / (prim_spec.max_val - prim_spec.min_val + 1)"},
    {"name": "R2 prim_min forgotten for signed primitives", "file": SER, "expect": "C10.R2",
     "old": "        self.prim_min = prim_spec.min_val\n", "new": "        self.prim_min = 0\n"},
    {"name": "R2 numpy step uses 2^bits", "file": SER, "expect": "C10.R2",
     "old": "self.step_mag = 1.0 / ((2 ** (self.dtype.itemsize * 8)) - 1)",
     "new": "self.step_mag = 1.0 / (2 ** (self.dtype.itemsize * 8))"},
    {"name": "P R2 span computed into a local first", "file": SER, "expect": "silent",
     "old": "        self.step_mag = 1.0 / (prim_spec.max_val - prim_spec.min_val)\n",
     "new": "        span = prim_spec.max_val - prim_spec.min_val\n        self.step_mag = 1.0 / span\n"},

    # ---------------------------------------------------------------- R3
    {"name": "R3 inverted range", "file": TMPL, "expect": "C10.R3",
     "old": '"Acceleration": se.Vector3U16(-64.0, 64.0),', "new": '"Acceleration": se.Vector3U16(64.0, -64.0),'},
    {"name": "R3 fixed point bit budget wrong", "file": TMPL, "expect": "C10.R3",
     "old": '"PDataMaxAge": se.FixedPoint(se.U16, 8, 8),', "new": '"PDataMaxAge": se.FixedPoint(se.U16, 8, 7),'},
    {"name": "R3 fixed point on a signed primitive", "file": TMPL, "expect": "C10.R3",
     "old": '"PDataMaxAge": se.FixedPoint(se.U16, 8, 8),', "new": '"PDataMaxAge": se.FixedPoint(se.S16, 8, 8),'},
    {"name": "R3 explicit zero_median=False treated as unspecified (seed 1 shape)", "file": SER, "expect": "C10.R3",
     "old": "if zero_median is None and math.fabs(midpoint) < max_error:",
     "new": "if not zero_median and math.fabs(midpoint) < max_error:"},
    {"name": "R3 zero-centred ranges no longer get zero_median", "file": SER, "expect": "C10.R3",
     "old": "if zero_median is None and math.fabs(midpoint) < max_error:",
     "new": "if zero_median and math.fabs(midpoint) < max_error:"},
    {"name": "R3 fixed point clamp below the representable maximum (seed 2 shape)", "file": SER, "expect": "C10.R3",
     "old": "val = min(max(val, self._min_val), self._max_val)", "new": "val = min(max(val, self._min_val), self._max_val - 1)"},
    {"name": "R3 unsigned fixed point clamps at 1 from below", "file": SER, "expect": "C10.R3",
     "old": "self._min_val = ((1 << int_bits) * -1) if signed else 0", "new": "self._min_val = ((1 << int_bits) * -1) if signed else 1"},
    {"name": "R3 mesh normals with an inverted range", "file": MESH, "expect": "C10.R3",
     "old": "LE_U16, 3), -1.0, 1.0),", "new": "LE_U16, 3), 1.0, -1.0),"},
    {"name": "R3 TE offset range made symmetric without zero_median", "file": TMPL, "expect": "C10.R3",
     "old": "TE_S16_COORD = se.QuantizedFloat(se.S16, -1.000030518509476, 1.0, False)",
     "new": "TE_S16_COORD = se.QuantizedFloat(se.S16, -1.0, 1.0, False)"},
    {"name": "P R3 keyword arguments", "file": TMPL, "expect": "silent",
     "old": '"Acceleration": se.Vector3U16(-64.0, 64.0),', "new": '"Acceleration": se.Vector3U16(upper=64.0, lower=-64.0),'},
    {"name": "P R3 positional signed flag", "file": TMPL, "expect": "silent",
     "old": '"Vel": se.FixedPointVector3U16(8, 7, signed=True),', "new": '"Vel": se.FixedPointVector3U16(8, 7, True),'},
    {"name": "P R3 range hoisted into a constant", "file": TMPL, "expect": "silent",
     "old": "TE_S16_COORD = se.QuantizedFloat(se.S16, -1.000030518509476, 1.0, False)",
     "new": "_TE_COORD_MIN = -1.000030518509476\nTE_S16_COORD = se.QuantizedFloat(se.S16, _TE_COORD_MIN, 1.0, zero_median=False)"},
    {"name": "X R3 different but valid range", "file": TMPL, "expect": "miss",
     "old": '"Acceleration": se.Vector3U16(-64.0, 64.0),', "new": '"Acceleration": se.Vector3U16(-32.0, 32.0),'},

    # ---------------------------------------------------------------- R1 wrappers / R4 purity (strengthening round)
    {"name": "R1 decode wrapper rounds the kernel's result for display", "file": SER, "expect": "C10.R1",
     "old": "        return self._quantized_to_float(val, self.lower, self.upper)\n",
     "new": "        return round(self._quantized_to_float(val, self.lower, self.upper), 6)\n"},
    {"name": "R1 decode wrapper replaces tiny values by a constant", "file": SER, "expect": "C10.R1",
     "old": "        return self._quantized_to_float(val, self.lower, self.upper)\n",
     "new": "        res = self._quantized_to_float(val, self.lower, self.upper)\n"
            "        if abs(res) < 1e-12:\n            return 0.0\n        return res\n"},
    {"name": "R1 encode wrapper pre-scales its argument", "file": SER, "expect": "C10.R1",
     "old": "        return self._float_to_quantized(val, self.lower, self.upper)\n",
     "new": "        val = float(val) * 1.0000001\n        return self._float_to_quantized(val, self.lower, self.upper)\n"},
    {"name": "P R1 wrapper result through a local of the same name", "file": SER, "expect": "silent",
     "old": "        return self._quantized_to_float(val, self.lower, self.upper)\n",
     "new": "        val = self._quantized_to_float(val, self.lower, self.upper)\n        return val\n"},
    {"name": "R4 numpy decode converts without copying, then scales in place", "file": SER, "expect": "C10.R4",
     "old": "        val = val.astype(np.float64)\n", "new": "        val = val.astype(np.float64, copy=False)\n"},
    {"name": "R4 numpy encode works on a view of its argument", "file": SER, "expect": "C10.R4",
     "old": "        val = np.array(val, dtype=np.float64)\n        val = np.clip(val, self.lower, self.upper)\n",
     "new": "        val = np.ascontiguousarray(val, dtype=np.float64)\n        val.clip(self.lower, self.upper, out=val)\n"},
    {"name": "R4 encode of key-frame times memoised on the float value only", "expect": "C10.R4",
     "edits": [{"file": ANIM, "old": "        super().__init__(prim_spec, zero_median=False)\n",
                "new": "        super().__init__(prim_spec, zero_median=False)\n        self._enc = {}\n"},
               {"file": ANIM, "old": "        return self._float_to_quantized(val, 0.0, self._get_upper_limit(ctx))\n",
                "new": "        if val not in self._enc:\n"
                       "            self._enc[val] = self._float_to_quantized(val, 0.0, self._get_upper_limit(ctx))\n"
                       "        return self._enc[val]\n"}]},
    {"name": "P R4 in-place clip after an explicit copy", "file": SER, "expect": "silent",
     "old": "        val = np.array(val, dtype=np.float64)\n        val = np.clip(val, self.lower, self.upper)\n",
     "new": "        val = np.array(val, dtype=np.float64, copy=True)\n        np.clip(val, self.lower, self.upper, out=val)\n"},
    {"name": "P R4 memo keyed by the raw value and the context-dependent limit", "expect": "silent",
     "edits": [{"file": ANIM, "old": "        super().__init__(prim_spec, zero_median=False)\n",
                "new": "        super().__init__(prim_spec, zero_median=False)\n        self._memo = {}\n"},
               {"file": ANIM, "old": "        return self._quantized_to_float(val, 0.0, self._get_upper_limit(ctx))\n",
                "new": "        key = (val, self._get_upper_limit(ctx))\n"
                       "        if key not in self._memo:\n"
                       "            self._memo[key] = self._quantized_to_float(val, 0.0, self._get_upper_limit(ctx))\n"
                       "        return self._memo[key]\n"}]},

    # ---------------------------------------------------------------- round 3: vector forms
    {"name": "R3 vector writer rounds components to millimetres", "file": SER, "expect": "C10.R3",
     "old": "        for spec, val in zip(self._elem_specs, vals):\n            writer.write(spec, val, ctx=ctx)\n",
     "new": "        for spec, val in zip(self._elem_specs, vals):\n            writer.write(spec, round(val, 3), ctx=ctx)\n"},
    {"name": "R3 quantised vector override clamps components to half the range", "file": SER, "expect": "C10.R3",
     "old": "class Vector3U16(QuantizedTupleCoord):\n    ELEM_SPEC = U16\n    NUM_ELEMS = 3\n    COORD_CLS = dtypes.Vector3\n",
     "new": "class Vector3U16(QuantizedTupleCoord):\n    ELEM_SPEC = U16\n    NUM_ELEMS = 3\n    COORD_CLS = dtypes.Vector3\n\n"
            "    def serialize(self, vals, writer, ctx):\n"
            "        vals = [max(min(c, 1.0), -1.0) for c in self._vals_to_tuple(vals)]\n"
            "        super().serialize(vals, writer, ctx)\n"},
    {"name": "P R3 fixed point vector override clamps at the element's own bound", "file": SER, "expect": "silent",
     "old": "            FixedPoint(self.ELEM_SPEC, int_bits, frac_bits, signed)\n            for _ in range(self.NUM_ELEMS)\n        )\n",
     "new": "            FixedPoint(self.ELEM_SPEC, int_bits, frac_bits, signed)\n            for _ in range(self.NUM_ELEMS)\n        )\n"
            "        self._component_cap = float(1 << int_bits)\n\n"
            "    def serialize(self, vals, writer: BufferWriter, ctx):\n"
            "        capped = tuple(min(c, self._component_cap) for c in self._vals_to_tuple(vals))\n"
            "        super().serialize(capped, writer, ctx)\n"},
    {"name": "P R3 tuple constructor through a range helper generator (keyword construction)", "file": SER, "expect": "silent",
     "old": "            assert lower is not None and upper is not None\n            self._elem_specs = tuple(\n"
            "                QuantizedFloat(self.ELEM_SPEC, lower, upper)\n                for _ in range(self.NUM_ELEMS)\n            )\n",
     "new": "            assert lower is not None and upper is not None\n            self._elem_specs = tuple(\n"
            "                QuantizedFloat(prim_spec=self.ELEM_SPEC, lower=rng[0], upper=rng[1])\n"
            "                for rng in [(lower, upper)] * self.NUM_ELEMS\n            )\n"},
    {"name": "R3 tuple constructor forces zero_median on every component", "file": SER, "expect": "C10.R3",
     "old": "                QuantizedFloat(self.ELEM_SPEC, lower, upper)\n                for lower, upper in component_scales\n",
     "new": "                QuantizedFloat(self.ELEM_SPEC, lower, upper, True)\n                for lower, upper in component_scales\n"},

    # ---------------------------------------------------------------- round 7: adapters around quantisers, value-dependent skips
    {"name": "R1 packed quaternion components rounded to 6 decimals before quantising", "file": SER, "expect": "C10.R1",
     "old": "            val = dtypes.Quaternion(*val).data(self._child_spec.NUM_ELEMS)\n",
     "new": "            val = tuple(round(c, 6) for c in dtypes.Quaternion(*val).data(self._child_spec.NUM_ELEMS))\n"},
    {"name": "R1 vertex list adapter flips the handedness of decoded vectors", "file": MESH, "expect": "C10.R1",
     "old": "            new_vals.append(self.vec_type(*elem))\n",
     "new": "            new_vals.append(self.vec_type(*(-c for c in elem)))\n"},
    {"name": "P R1 packed quaternion encode with early return and a named local", "file": SER, "expect": "silent",
     "old": "        if not isinstance(val, dtypes.TupleCoord):\n"
            "            val = dtypes.Quaternion(*val).data(self._child_spec.NUM_ELEMS)\n        return val\n",
     "new": "        if isinstance(val, dtypes.TupleCoord):\n            return val\n"
            "        quat = dtypes.Quaternion(*val)\n        return quat.data(self._child_spec.NUM_ELEMS)\n"},
    {"name": "R5 vertex weights below a threshold are not written", "file": MESH, "expect": "C10.R5",
     "old": "            joint_idx, influence = val\n            writer.write(se.U8, joint_idx)\n",
     "new": "            joint_idx, influence = val\n            if influence < 1e-6:\n                continue\n"
            "            writer.write(se.U8, joint_idx)\n"},
    {"name": "P R5 vertex weight quantised into a local, loop unpacks in its header", "file": MESH, "expect": "silent",
     "old": "        for val in vals:\n            joint_idx, influence = val\n            writer.write(se.U8, joint_idx)\n"
            "            writer.write(se.U16, round(influence * 0xFFff), ctx=ctx)\n",
     "new": "        for joint_idx, influence in vals:\n            raw_weight = round(influence * 0xFFff)\n"
            "            writer.write(se.U8, joint_idx)\n            writer.write(se.U16, raw_weight, ctx=ctx)\n"},

    # round 8: helpers handed the components, coordinate constructors
    {'name': 'R3 pod form of vector coordinates rounded in a module-level helper',
     'expect': 'C10.R3',
     'edits': [{'file': 'hippolyzer/lib/base/serialization.py',
                'old': 'class TupleCoord(SerializableBase):\n    ELEM_SPEC: SerializablePrimitive\n',
                'new': 'def _display_tuple(coord):\n'
                       '    return tuple(round(c, 6) for c in coord)\n'
                       '\n'
                       '\n'
                       'class TupleCoord(SerializableBase):\n'
                       '    ELEM_SPEC: SerializablePrimitive\n'},
               {'file': 'hippolyzer/lib/base/serialization.py',
                'old': '        if self.need_pod(reader):\n            return tuple(val)\n',
                'new': '        if self.need_pod(reader):\n            return _display_tuple(val)\n'}]},
    {'name': 'P R3 pod tuple built by a helper that only re-shapes',
     'expect': 'silent',
     'edits': [{'file': 'hippolyzer/lib/base/serialization.py',
                'old': 'class TupleCoord(SerializableBase):\n    ELEM_SPEC: SerializablePrimitive\n',
                'new': 'def _plain_tuple(coord):\n'
                       '    return tuple(c for c in coord)\n'
                       '\n'
                       '\n'
                       'class TupleCoord(SerializableBase):\n'
                       '    ELEM_SPEC: SerializablePrimitive\n'},
               {'file': 'hippolyzer/lib/base/serialization.py',
                'old': '        if self.need_pod(reader):\n            return tuple(val)\n',
                'new': '        if self.need_pod(reader):\n            return _plain_tuple(val)\n'}]},
    {'name': 'R3 Vector3 constructor defaults falsy components',
     'file': 'hippolyzer/lib/base/datatypes.py',
     'expect': 'C10.R3',
     'old': '        self.X = float(X)\n'
            '        self.Y = float(Y)\n'
            '        self.Z = float(Z)\n'
            '\n'
            '    def data(self, wanted_components=None):\n'
            '        return self.X, self.Y, self.Z\n',
     'new': '        self.X = float(X) if X else 0.0\n'
            '        self.Y = float(Y) if Y else 0.0\n'
            '        self.Z = float(Z) if Z else 0.0\n'
            '\n'
            '    def data(self, wanted_components=None):\n'
            '        return self.X, self.Y, self.Z\n'},
    {'name': 'P R3 Vector3 constructor with one tuple assignment',
     'file': 'hippolyzer/lib/base/datatypes.py',
     'expect': 'silent',
     'old': '        self.X = float(X)\n'
            '        self.Y = float(Y)\n'
            '        self.Z = float(Z)\n'
            '\n'
            '    def data(self, wanted_components=None):\n'
            '        return self.X, self.Y, self.Z\n',
     'new': '        self.X, self.Y, self.Z = float(X), float(Y), float(Z)\n'
            '\n'
            '    def data(self, wanted_components=None):\n'
            '        return self.X, self.Y, self.Z\n'},

    # audit round: saturation at the primitive's range (D51), zero-width domains (D52)
    {'name': 'R3 D51 re-introduced: FixedPoint hands the unsaturated integer to the primitive',
     'file': 'hippolyzer/lib/base/serialization.py',
     'expect': 'C10.R3',
     'old': '        return self._ser_spec.serialize(min(round(val), self._ser_spec.max_val), writer, ctx)\n',
     'new': '        return self._ser_spec.serialize(round(val), writer, ctx)\n'},
    {'name': 'R1 FixedPoint clamps the rounded integer to a magic number',
     'file': 'hippolyzer/lib/base/serialization.py',
     'expect': 'C10.R1',
     'old': '        return self._ser_spec.serialize(min(round(val), self._ser_spec.max_val), writer, ctx)\n',
     'new': '        return self._ser_spec.serialize(min(round(val), 0xFF00), writer, ctx)\n'},
    {'name': 'P R3 FixedPoint saturation as its own statement',
     'file': 'hippolyzer/lib/base/serialization.py',
     'expect': 'silent',
     'old': '        return self._ser_spec.serialize(min(round(val), self._ser_spec.max_val), writer, ctx)\n',
     'new': '        raw = round(val)\n'
            '        raw = min(raw, self._ser_spec.max_val)\n'
            '        return self._ser_spec.serialize(raw, writer, ctx)\n'},
    {'name': 'P R3 FixedPoint saturation at both ends of the primitive',
     'file': 'hippolyzer/lib/base/serialization.py',
     'expect': 'silent',
     'old': '        return self._ser_spec.serialize(min(round(val), self._ser_spec.max_val), writer, ctx)\n',
     'new': '        return self._ser_spec.serialize(max(min(round(val), self._ser_spec.max_val), '
            'self._ser_spec.min_val), writer, ctx)\n'},
    {'name': 'R6 D52 re-introduced: within_domain divides by a zero-width axis',
     'file': 'hippolyzer/lib/base/datatypes.py',
     'expect': 'C10.R6',
     'old': '            *(((t - l) / (u - l)) if u != l else 0.0 for l, u, t in zip(lower, upper, self))\n',
     'new': '            *(((t - l) / (u - l)) for l, u, t in zip(lower, upper, self))\n'},
    {'name': 'P R6 zero-width guard written on the width itself',
     'file': 'hippolyzer/lib/base/datatypes.py',
     'expect': 'silent',
     'old': '            *(((t - l) / (u - l)) if u != l else 0.0 for l, u, t in zip(lower, upper, self))\n',
     'new': '            *(((t - l) / (u - l)) if (u - l) != 0 else 0.0 for l, u, t in zip(lower, upper, self))\n'},
    {'name': 'R6 quantiser loses its degenerate-range guard',
     'file': 'hippolyzer/lib/base/serialization.py',
     'expect': 'C10.R6',
     'old': '        delta = upper - lower\n'
            '        if delta == 0.0:\n'
            '            return self.prim_min\n'
            '\n'
            '        val = min(max(val, lower), upper)\n',
     'new': '        delta = upper - lower\n\n        val = min(max(val, lower), upper)\n'},
]

# round 9: hand-written scaling adapters, arithmetic in the coordinate object's projection
VARIANTS = VARIANTS + [
    {'name': 'R1 new scaling adapter truncates the quotient when encoding',
     'file': 'hippolyzer/lib/base/templates.py',
     'expect': 'C10.R1',
     'old': 'class DateAdapter(se.Adapter):\n',
     'new': 'class _CentiAdapter(se.Adapter):\n'
            '    def __init__(self):\n'
            '        super().__init__(None)\n'
            '\n'
            '    def decode(self, val: Any, ctx: Optional[se.ParseContext], pod: bool = False) -> Any:\n'
            '        return val * 0.01\n'
            '\n'
            '    def encode(self, val: Any, ctx: Optional[se.ParseContext]) -> Any:\n'
            '        return int(val / 0.01)\n'
            '\n'
            '\n'
            'class DateAdapter(se.Adapter):\n'},
    {'name': 'P R1 new scaling adapter rounds to nearest',
     'file': 'hippolyzer/lib/base/templates.py',
     'expect': 'silent',
     'old': 'class DateAdapter(se.Adapter):\n',
     'new': 'class _CentiAdapter(se.Adapter):\n'
            '    def __init__(self):\n'
            '        super().__init__(None)\n'
            '\n'
            '    def decode(self, val: Any, ctx: Optional[se.ParseContext], pod: bool = False) -> Any:\n'
            '        return val * 0.01\n'
            '\n'
            '    def encode(self, val: Any, ctx: Optional[se.ParseContext]) -> Any:\n'
            '        return round(val / 0.01)\n'
            '\n'
            '\n'
            'class DateAdapter(se.Adapter):\n'},
    {'name': 'R1 Quaternion.data(3) rescales the components it hands to the packed form',
     'file': 'hippolyzer/lib/base/datatypes.py',
     'expect': 'C10.R1',
     'old': '            if self.W < 0:\n'
            '                return -self.X, -self.Y, -self.Z\n'
            '            return self.X, self.Y, self.Z\n',
     'new': '            scale = 1.0 / max(abs(self.X), abs(self.Y), abs(self.Z), abs(self.W), 1.0)\n'
            '            if self.W < 0:\n'
            '                return -self.X * scale, -self.Y * scale, -self.Z * scale\n'
            '            return self.X * scale, self.Y * scale, self.Z * scale\n'},
]
