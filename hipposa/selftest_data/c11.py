"""Self-test corpus for C11: text edits on a scratch overlay (never on /repo)."""
FMT = "hippolyzer/lib/base/message/message_formatting.py"
HELPERS = "hippolyzer/lib/base/helpers.py"
TEMPLATES = "hippolyzer/lib/base/templates.py"
SER = "hippolyzer/lib/base/serialization.py"

GUARD = ("                if evaled and safe:\n"
         "                    raise ValueError(\"Can't use eval operator in safe mode\")\n")
EVAL_BLOCK = ("                if evaled:\n"
              "                    var_val = subfield_eval(\n"
              "                        var_val,\n"
              "                        globals_={**env, **replacements},\n"
              "                        locals_={\"block\": cur_block}\n"
              "                    )\n")
PLAIN_LITERAL = ("                    else:\n"
                 "                        var_val = ast.literal_eval(var_val)\n")
STR_LOOP = ("        split = []\n"
            "        while obj:\n"
            "            left, mid, obj = obj.partition(sep)\n"
            "            split.append(left + mid)\n")

VARIANTS = [
    # ------------------------------------------------------------------ R1 breaking
    {"name": "R1 safe-mode raise deleted", "file": FMT, "expect": "C11.R1", "old": GUARD, "new": ""},
    {"name": "R1 plain values evaluated with eval()", "file": FMT, "expect": "C11.R1",
     "old": PLAIN_LITERAL, "new": "                    else:\n                        var_val = eval(var_val)\n"},
    {"name": "R1 literal_eval with eval fallback (seeded shape)", "file": FMT, "expect": "C11.R1",
     "old": PLAIN_LITERAL,
     "new": ("                    else:\n"
             "                        try:\n"
             "                            var_val = ast.literal_eval(var_val)\n"
             "                        except ValueError:\n"
             "                            var_val = eval(var_val, {\"__builtins__\": {}}, {\"inf\": math.inf})\n")},
    {"name": "R1 a subfield serializer evaluates its input", "file": TEMPLATES, "expect": "C11.R1",
     "old": "    def serialize(cls, ctx_obj, vals):\n        template = cls._get_target_template(ctx_obj, vals)\n",
     "new": "    def serialize(cls, ctx_obj, vals):\n        if isinstance(vals, str):\n            vals = eval(vals)\n"
            "        template = cls._get_target_template(ctx_obj, vals)\n"},
    {"name": "R1 guard only for packed values", "file": FMT, "expect": "C11.R1",
     "old": "                if evaled and safe:\n", "new": "                if evaled and safe and packed:\n"},
    {"name": "R1 guard placed after the evaluation", "file": FMT, "expect": "C11.R1",
     "edits": [{"file": FMT, "old": GUARD, "new": ""},
               {"file": FMT, "old": EVAL_BLOCK, "new": EVAL_BLOCK + GUARD}]},
    {"name": "R1 flag recomputed between guard and evaluation", "file": FMT, "expect": "C11.R1",
     "old": GUARD, "new": GUARD + "                evaled = evaled or var_val.startswith(\"$\")\n"},
    {"name": "R1 safe flag overwritten", "file": FMT, "expect": "C11.R1",
     "old": "        env = env or {}\n", "new": "        env = env or {}\n        safe = safe and not env\n"},
    {"name": "R1 unpickling of the text in the parser", "file": FMT, "expect": "C11.R1",
     "edits": [{"file": FMT, "old": "import base64\n", "new": "import base64\nimport pickle\n"},
               {"file": FMT, "old": "                    elif var_val.startswith(\"<\"):\n",
                "new": "                    elif var_val.startswith(\"!\"):\n"
                       "                        var_val = pickle.loads(base64.b64decode(var_val[1:]))\n"
                       "                    elif var_val.startswith(\"<\"):\n"}]},
    {"name": "R1 evaluation moved into an unguarded helper", "file": FMT, "expect": "C11.R1",
     "edits": [{"file": FMT, "old": GUARD, "new": ""},
               {"file": FMT, "old": EVAL_BLOCK,
                "new": "                if evaled:\n                    var_val = cls._eval_field(var_val, env, replacements, cur_block)\n"},
               {"file": FMT, "old": "    @classmethod\n    def to_human_string(",
                "new": "    @classmethod\n    def _eval_field(cls, text, env, replacements, block):\n"
                       "        return subfield_eval(text, globals_={**env, **replacements}, locals_={\"block\": block})\n\n"
                       "    @classmethod\n    def to_human_string("}]},
    # ------------------------------------------------------------------ R1 preserving
    {"name": "P1 guard as nested ifs", "file": FMT, "expect": "silent",
     "old": GUARD,
     "new": "                if evaled:\n                    if safe:\n"
            "                        raise ValueError(\"Can't use eval operator in safe mode\")\n"},
    {"name": "P1 rename the evaled local", "expect": "silent",
     "edits": [{"file": FMT, "old": "evaled", "new": "wants_eval", "all": True}]},
    {"name": "P1 evaluation extracted into a helper called under the guard", "expect": "silent",
     "edits": [{"file": FMT, "old": EVAL_BLOCK,
                "new": "                if evaled:\n                    var_val = cls._eval_field(var_val, env, replacements, cur_block)\n"},
               {"file": FMT, "old": "    @classmethod\n    def to_human_string(",
                "new": "    @classmethod\n    def _eval_field(cls, text, env, replacements, block):\n"
                       "        return subfield_eval(text, globals_={**env, **replacements}, locals_={\"block\": block})\n\n"
                       "    @classmethod\n    def to_human_string("}]},
    {"name": "P1 guard extracted into a raising helper", "expect": "silent",
     "edits": [{"file": FMT, "old": GUARD, "new": "                cls._check_operator(evaled, safe)\n"},
               {"file": FMT, "old": "    @classmethod\n    def to_human_string(",
                "new": "    @staticmethod\n    def _check_operator(is_eval, safe_mode):\n"
                       "        if is_eval and safe_mode:\n"
                       "            raise ValueError(\"Can't use eval operator in safe mode\")\n\n"
                       "    @classmethod\n    def to_human_string("}]},
    {"name": "P1 safe flag threaded into a helper that guards itself", "expect": "silent",
     "edits": [{"file": FMT, "old": GUARD, "new": ""},
               {"file": FMT, "old": EVAL_BLOCK,
                "new": "                if evaled:\n"
                       "                    var_val = cls._eval_field(var_val, env, replacements, cur_block, safe)\n"},
               {"file": FMT, "old": "    @classmethod\n    def to_human_string(",
                "new": "    @classmethod\n    def _eval_field(cls, text, env, replacements, block, safe_mode):\n"
                       "        if safe_mode:\n"
                       "            raise ValueError(\"Can't use eval operator in safe mode\")\n"
                       "        return subfield_eval(text, globals_={**env, **replacements}, locals_={\"block\": block})\n\n"
                       "    @classmethod\n    def to_human_string("}]},
    {"name": "P1 logging added before the evaluation", "file": FMT, "expect": "silent",
     "old": "                if evaled:\n                    var_val = subfield_eval(\n",
     "new": "                if evaled:\n                    logging.debug(\"evaluating %r\", var_val)\n"
            "                    var_val = subfield_eval(\n"},
    # ------------------------------------------------------------------ R2
    {"name": "R2 formatter emits ':=|'", "file": FMT, "expect": "C11.R2",
     "old": 'string += f"  {var_name} =| {cls._multi_line_pformat(pretty_data)}"',
     "new": 'string += f"  {var_name} :=| {cls._multi_line_pformat(pretty_data)}"'},
    {"name": "R2 pretty values emitted with the plain operator", "file": FMT, "expect": "C11.R2",
     "old": 'string += f"  {var_name} =| {cls._multi_line_pformat(pretty_data)}"',
     "new": 'string += f"  {var_name} = {cls._multi_line_pformat(pretty_data)}"'},
    {"name": "R2 parser no longer accepts '|' in operators", "file": FMT, "expect": "C11.R2",
     "old": r'(=[|$]*)', "new": r'(=[$]*)'},
    {"name": "R2 packed classification looks for '$'", "file": FMT, "expect": "C11.R2",
     "old": 'packed = "|" in operator', "new": 'packed = "$" in operator'},
    {"name": "R2 commented original uses '//'", "file": FMT, "expect": "C11.R2",
     "old": 'field_prefix = "#"', "new": 'field_prefix = "//"'},
    {"name": "R2 continuation suffix without backslash", "file": FMT, "expect": "C11.R2",
     "old": 'suffix = " \\\\\\n"', "new": 'suffix = " +\\n"'},
    {"name": "R2 parser cuts two characters at a continuation", "file": FMT, "expect": "C11.R2",
     "old": "var_val = var_val[:-1].rstrip()", "new": "var_val = var_val[:-2].rstrip()"},
    {"name": "R2 flags printed in angle brackets", "file": FMT, "expect": "C11.R2",
     "old": 'string += f" [{poss_flag.name}]"', "new": 'string += f" <{poss_flag.name}>"'},
    {"name": "R2 packet id annotation without comment marker", "file": FMT, "expect": "C11.R2",
     "old": "string += f'\\n# ID: {msg.packet_id}'", "new": "string += f'\\nID: {msg.packet_id}'"},
    {"name": "R2 block header in parentheses", "file": FMT, "expect": "C11.R2",
     "old": 'string += f"[{block_name}]{block_suffix}\\n"', "new": 'string += f"({block_name}){block_suffix}\\n"'},
    {"name": "P2 wider indentation of variable lines", "file": FMT, "expect": "silent",
     "old": 'string += f"  {field_prefix}{var_name} = {var_data}"', "new": 'string += f"    {field_prefix}{var_name} = {var_data}"'},
    {"name": "P2 rename field_prefix local", "expect": "silent",
     "edits": [{"file": FMT, "old": "field_prefix", "new": "line_prefix", "all": True}]},
    {"name": "P2 continuation prefix of two spaces", "file": FMT, "expect": "silent",
     "old": 'prefix = "    "', "new": 'prefix = "  "'},
    # ------------------------------------------------------------------ R3
    {"name": "R3 parser key swaps message and block", "file": FMT, "expect": "C11.R3",
     "old": "ser_key = (msg.name, cur_block.name, var_name)", "new": "ser_key = (cur_block.name, msg.name, var_name)"},
    {"name": "R3 formatter key swaps block and variable", "file": FMT, "expect": "C11.R3",
     "old": "ser_key = (msg.name, block.name, var_name)", "new": "ser_key = (msg.name, var_name, block.name)"},
    {"name": "R3 parser serialises against the first block of the message", "file": FMT, "expect": "C11.R3",
     "old": "var_val = serializer.serialize(cur_block, var_val)",
     "new": "var_val = serializer.serialize(msg.blocks[cur_block.name][0], var_val)"},
    {"name": "R3 formatter passes the first block of the list", "file": FMT, "expect": "C11.R3",
     "old": "cls._format_var(msg, block, var_name, val, replacements, beautify)",
     "new": "cls._format_var(msg, block_list[0], var_name, val, replacements, beautify)"},
    {"name": "P3 rename ser_key", "expect": "silent",
     "edits": [{"file": FMT, "old": "ser_key", "new": "registry_key", "all": True}]},
    {"name": "P3 key passed inline in the formatter", "file": FMT, "expect": "silent",
     "old": "        serializer = se.SUBFIELD_SERIALIZERS.get(ser_key)\n        field_prefix",
     "new": "        serializer = se.SUBFIELD_SERIALIZERS.get((msg.name, block.name, var_name))\n        field_prefix"},
    # ------------------------------------------------------------------ R4
    {"name": "R4 pieces from splitlines() (seeded shape)", "file": HELPERS, "expect": "C11.R4",
     "old": STR_LOOP,
     "new": "        split = [line + sep for line in obj.splitlines()]\n"
            "        if not obj.endswith(sep):\n            split[-1] = split[-1][:-1]\n"},
    {"name": "R4 trailing whitespace trimmed from each piece", "file": HELPERS, "expect": "C11.R4",
     "old": "            split.append(left + mid)\n", "new": "            split.append(left.rstrip() + mid)\n"},
    {"name": "P4 pieces from splitlines(keepends=True)", "file": HELPERS, "expect": "silent",
     "old": STR_LOOP, "new": "        split = obj.splitlines(keepends=True)\n"},
    {"name": "P4 threshold computed with len(splitlines())", "file": HELPERS, "expect": "silent",
     "old": "        if obj.count(sep) < 5:\n", "new": "        if len(obj.splitlines()) < 6:\n"},
    {"name": "P4 rename loop locals", "file": HELPERS, "expect": "silent",
     "old": STR_LOOP,
     "new": "        split = []\n        rest = obj\n        while rest:\n"
            "            head, found, rest = rest.partition(sep)\n            split.append(head + found)\n"},
    # ------------------------------------------------------------------ documented limits
    {"name": "X wrap width changed (line-wrapping details are value level)", "file": FMT, "expect": "miss",
     "old": "HippoPrettyPrinter(width=100)", "new": "HippoPrettyPrinter(width=40)"},
    {"name": "X UUID sniffing pattern loosened (value level)", "file": FMT, "expect": "miss",
     "old": r'elif re.match(r"\A\w+-\w+-.*", var_val):', "new": r'elif re.match(r"\A\w+-\w+.*", var_val):'},
]
