"""Self-test corpus for C11: text edits on a scratch overlay (never on /repo)."""
FMT = "hippolyzer/lib/base/message/message_formatting.py"
HELPERS = "hippolyzer/lib/base/helpers.py"
TEMPLATES = "hippolyzer/lib/base/templates.py"
SER = "hippolyzer/lib/base/serialization.py"
DT = "hippolyzer/lib/base/datatypes.py"

GUARD = ("                if evaled and safe:\n"
         "                    raise ValueError(\"Can't use eval operator in safe mode\")\n")
EVAL_BLOCK = ("                if evaled:\n"
              "                    var_val = subfield_eval(\n"
              "                        var_val,\n"
              "                        globals_={**env, **replacements},\n"
              "                        locals_={\"block\": cur_block}\n"
              "                    )\n")
PLAIN_LITERAL = ("                    else:\n"
                 "                        var_val = ast.literal_eval(var_val)\n")
STR_LOOP = ("        split = []\n"
            "        while obj:\n"
            "            left, mid, obj = obj.partition(sep)\n"
            "            split.append(left + mid)\n")

VARIANTS = [
    # ------------------------------------------------------------------ R1 breaking
    {"name": "R1 safe-mode raise deleted", "file": FMT, "expect": "C11.R1", "old": GUARD, "new": ""},
    {"name": "R1 plain values evaluated with eval()", "file": FMT, "expect": "C11.R1",
     "old": PLAIN_LITERAL, "new": "                    else:\n                        var_val = eval(var_val)\n"},
    {"name": "R1 literal_eval with eval fallback (seeded shape)", "file": FMT, "expect": "C11.R1",
     "old": PLAIN_LITERAL,
     "new": ("                    else:\n"
             "                        try:\n"
             "                            var_val = ast.literal_eval(var_val)\n"
             "                        except ValueError:\n"
             "                            var_val = eval(var_val, {\"__builtins__\": {}}, {\"inf\": math.inf})\n")},
    {"name": "R1 a subfield serializer evaluates its input", "file": TEMPLATES, "expect": "C11.R1",
     "old": "    def serialize(cls, ctx_obj, vals):\n        template = cls._get_target_template(ctx_obj, vals)\n",
     "new": "    def serialize(cls, ctx_obj, vals):\n        if isinstance(vals, str):\n            vals = eval(vals)\n"
            "        template = cls._get_target_template(ctx_obj, vals)\n"},
    {"name": "R1 guard only for packed values", "file": FMT, "expect": "C11.R1",
     "old": "                if evaled and safe:\n", "new": "                if evaled and safe and packed:\n"},
    {"name": "R1 guard placed after the evaluation", "file": FMT, "expect": "C11.R1",
     "edits": [{"file": FMT, "old": GUARD, "new": ""},
               {"file": FMT, "old": EVAL_BLOCK, "new": EVAL_BLOCK + GUARD}]},
    {"name": "R1 flag recomputed between guard and evaluation", "file": FMT, "expect": "C11.R1",
     "old": GUARD, "new": GUARD + "                evaled = evaled or var_val.startswith(\"$\")\n"},
    {"name": "R1 safe flag overwritten", "file": FMT, "expect": "C11.R1",
     "old": "        env = env or {}\n", "new": "        env = env or {}\n        safe = safe and not env\n"},
    {"name": "R1 unpickling of the text in the parser", "file": FMT, "expect": "C11.R1",
     "edits": [{"file": FMT, "old": "import base64\n", "new": "import base64\nimport pickle\n"},
               {"file": FMT, "old": "                    elif var_val.startswith(\"<\"):\n",
                "new": "                    elif var_val.startswith(\"!\"):\n"
                       "                        var_val = pickle.loads(base64.b64decode(var_val[1:]))\n"
                       "                    elif var_val.startswith(\"<\"):\n"}]},
    {"name": "R1 evaluation moved into an unguarded helper", "file": FMT, "expect": "C11.R1",
     "edits": [{"file": FMT, "old": GUARD, "new": ""},
               {"file": FMT, "old": EVAL_BLOCK,
                "new": "                if evaled:\n                    var_val = cls._eval_field(var_val, env, replacements, cur_block)\n"},
               {"file": FMT, "old": "    @classmethod\n    def to_human_string(",
                "new": "    @classmethod\n    def _eval_field(cls, text, env, replacements, block):\n"
                       "        return subfield_eval(text, globals_={**env, **replacements}, locals_={\"block\": block})\n\n"
                       "    @classmethod\n    def to_human_string("}]},
    # ------------------------------------------------------------------ R1 preserving
    {"name": "P1 guard as nested ifs", "file": FMT, "expect": "silent",
     "old": GUARD,
     "new": "                if evaled:\n                    if safe:\n"
            "                        raise ValueError(\"Can't use eval operator in safe mode\")\n"},
    {"name": "P1 rename the evaled local", "expect": "silent",
     "edits": [{"file": FMT, "old": "evaled", "new": "wants_eval", "all": True}]},
    {"name": "P1 evaluation extracted into a helper called under the guard", "expect": "silent",
     "edits": [{"file": FMT, "old": EVAL_BLOCK,
                "new": "                if evaled:\n                    var_val = cls._eval_field(var_val, env, replacements, cur_block)\n"},
               {"file": FMT, "old": "    @classmethod\n    def to_human_string(",
                "new": "    @classmethod\n    def _eval_field(cls, text, env, replacements, block):\n"
                       "        return subfield_eval(text, globals_={**env, **replacements}, locals_={\"block\": block})\n\n"
                       "    @classmethod\n    def to_human_string("}]},
    {"name": "P1 guard extracted into a raising helper", "expect": "silent",
     "edits": [{"file": FMT, "old": GUARD, "new": "                cls._check_operator(evaled, safe)\n"},
               {"file": FMT, "old": "    @classmethod\n    def to_human_string(",
                "new": "    @staticmethod\n    def _check_operator(is_eval, safe_mode):\n"
                       "        if is_eval and safe_mode:\n"
                       "            raise ValueError(\"Can't use eval operator in safe mode\")\n\n"
                       "    @classmethod\n    def to_human_string("}]},
    {"name": "P1 safe flag threaded into a helper that guards itself", "expect": "silent",
     "edits": [{"file": FMT, "old": GUARD, "new": ""},
               {"file": FMT, "old": EVAL_BLOCK,
                "new": "                if evaled:\n"
                       "                    var_val = cls._eval_field(var_val, env, replacements, cur_block, safe)\n"},
               {"file": FMT, "old": "    @classmethod\n    def to_human_string(",
                "new": "    @classmethod\n    def _eval_field(cls, text, env, replacements, block, safe_mode):\n"
                       "        if safe_mode:\n"
                       "            raise ValueError(\"Can't use eval operator in safe mode\")\n"
                       "        return subfield_eval(text, globals_={**env, **replacements}, locals_={\"block\": block})\n\n"
                       "    @classmethod\n    def to_human_string("}]},
    {"name": "P1 logging added before the evaluation", "file": FMT, "expect": "silent",
     "old": "                if evaled:\n                    var_val = subfield_eval(\n",
     "new": "                if evaled:\n                    logging.debug(\"evaluating %r\", var_val)\n"
            "                    var_val = subfield_eval(\n"},
    # ------------------------------------------------------------------ R2
    {"name": "R2 formatter emits ':=|'", "file": FMT, "expect": "C11.R2",
     "old": 'string += f"  {var_name} =| {cls._multi_line_pformat(pretty_data)}"',
     "new": 'string += f"  {var_name} :=| {cls._multi_line_pformat(pretty_data)}"'},
    {"name": "R2 pretty values emitted with the plain operator", "file": FMT, "expect": "C11.R2",
     "old": 'string += f"  {var_name} =| {cls._multi_line_pformat(pretty_data)}"',
     "new": 'string += f"  {var_name} = {cls._multi_line_pformat(pretty_data)}"'},
    {"name": "R2 parser no longer accepts '|' in operators", "file": FMT, "expect": "C11.R2",
     "old": r'(=[|$]*)', "new": r'(=[$]*)'},
    {"name": "R2 packed classification looks for '$'", "file": FMT, "expect": "C11.R2",
     "old": 'packed = "|" in operator', "new": 'packed = "$" in operator'},
    {"name": "R2 commented original uses '//'", "file": FMT, "expect": "C11.R2",
     "old": 'field_prefix = "#"', "new": 'field_prefix = "//"'},
    {"name": "R2 continuation suffix without backslash", "file": FMT, "expect": "C11.R2",
     "old": 'suffix = " \\\\\\n"', "new": 'suffix = " +\\n"'},
    {"name": "R2 parser cuts two characters at a continuation", "file": FMT, "expect": "C11.R2",
     "old": "var_val = var_val[:-1].rstrip()", "new": "var_val = var_val[:-2].rstrip()"},
    {"name": "R2 flags printed in angle brackets", "file": FMT, "expect": "C11.R2",
     "old": 'string += f" [{poss_flag.name}]"', "new": 'string += f" <{poss_flag.name}>"'},
    {"name": "R2 packet id annotation without comment marker", "file": FMT, "expect": "C11.R2",
     "old": "string += f'\\n# ID: {msg.packet_id}'", "new": "string += f'\\nID: {msg.packet_id}'"},
    {"name": "R2 block header in parentheses", "file": FMT, "expect": "C11.R2",
     "old": 'string += f"[{block_name}]{block_suffix}\\n"', "new": 'string += f"({block_name}){block_suffix}\\n"'},
    {"name": "P2 wider indentation of variable lines", "file": FMT, "expect": "silent",
     "old": 'string += f"  {field_prefix}{var_name} = {var_data}"', "new": 'string += f"    {field_prefix}{var_name} = {var_data}"'},
    {"name": "P2 rename field_prefix local", "expect": "silent",
     "edits": [{"file": FMT, "old": "field_prefix", "new": "line_prefix", "all": True}]},
    {"name": "P2 continuation prefix of two spaces", "file": FMT, "expect": "silent",
     "old": 'prefix = "    "', "new": 'prefix = "  "'},
    # ------------------------------------------------------------------ R3
    {"name": "R3 parser key swaps message and block", "file": FMT, "expect": "C11.R3",
     "old": "ser_key = (msg.name, cur_block.name, var_name)", "new": "ser_key = (cur_block.name, msg.name, var_name)"},
    {"name": "R3 formatter key swaps block and variable", "file": FMT, "expect": "C11.R3",
     "old": "ser_key = (msg.name, block.name, var_name)", "new": "ser_key = (msg.name, var_name, block.name)"},
    {"name": "R3 parser serialises against the first block of the message", "file": FMT, "expect": "C11.R3",
     "old": "block[var_name] = serializer.serialize(block, val)",
     "new": "block[var_name] = serializer.serialize(msg.blocks[block.name][0], val)"},
    {"name": "R3 formatter passes the first block of the list", "file": FMT, "expect": "C11.R3",
     "old": "cls._format_var(msg, block, var_name, val, replacements, beautify)",
     "new": "cls._format_var(msg, block_list[0], var_name, val, replacements, beautify)"},
    {"name": "P3 rename ser_key", "expect": "silent",
     "edits": [{"file": FMT, "old": "ser_key", "new": "registry_key", "all": True}]},
    {"name": "P3 key passed inline in the formatter", "file": FMT, "expect": "silent",
     "old": "        serializer = se.SUBFIELD_SERIALIZERS.get(ser_key)\n        field_prefix",
     "new": "        serializer = se.SUBFIELD_SERIALIZERS.get((msg.name, block.name, var_name))\n        field_prefix"},
    # ------------------------------------------------------------------ R4
    {"name": "R4 pieces from splitlines() (seeded shape)", "file": HELPERS, "expect": "C11.R4",
     "old": STR_LOOP,
     "new": "        split = [line + sep for line in obj.splitlines()]\n"
            "        if not obj.endswith(sep):\n            split[-1] = split[-1][:-1]\n"},
    {"name": "R4 trailing whitespace trimmed from each piece", "file": HELPERS, "expect": "C11.R4",
     "old": "            split.append(left + mid)\n", "new": "            split.append(left.rstrip() + mid)\n"},
    {"name": "P4 pieces from splitlines(keepends=True)", "file": HELPERS, "expect": "silent",
     "old": STR_LOOP, "new": "        split = obj.splitlines(keepends=True)\n"},
    {"name": "P4 threshold computed with len(splitlines())", "file": HELPERS, "expect": "silent",
     "old": "        if obj.count(sep) < 5:\n", "new": "        if len(obj.splitlines()) < 6:\n"},
    {"name": "P4 rename loop locals", "file": HELPERS, "expect": "silent",
     "old": STR_LOOP,
     "new": "        split = []\n        rest = obj\n        while rest:\n"
            "            head, found, rest = rest.partition(sep)\n            split.append(head + found)\n"},
    # ------------------------------------------------------------------ strengthening round
    {"name": "R2 UUID sniffing by unanchored search", "file": FMT, "expect": "C11.R2",
     "old": r'elif re.match(r"\A\w+-\w+-.*", var_val):', "new": r'elif re.search(r"\w+-\w+-.*", var_val):'},
    {"name": "R2 digit option tested with an unanchored precompiled pattern", "expect": "C11.R2",
     "edits": [{"file": FMT, "old": "class HumanMessageSerializer:\n",
                "new": "class HumanMessageSerializer:\n    _NUMERIC = re.compile(r\"\\d+$\")\n\n"},
               {"file": FMT, "old": r'elif re.match(r"^\d+$", option):', "new": "elif cls._NUMERIC.search(option):"}]},
    {"name": "P2 replacement sniffing by search with an explicit \\A", "file": FMT, "expect": "silent",
     "old": r'replacement_match = re.match(r"\[\[(\w+)]]", var_val)',
     "new": r'replacement_match = re.search(r"\A\[\[(\w+)]]", var_val)'},
    {"name": "P2 comment pattern precompiled as a class constant", "expect": "silent",
     "edits": [{"file": FMT, "old": "class HumanMessageSerializer:\n",
                "new": "class HumanMessageSerializer:\n    _SKIP = re.compile(r\"^\\s*(#.*)?$\")\n\n"},
               {"file": FMT, "old": r'if re.match(r"^\s*(#.*)?$", line):', "new": "if cls._SKIP.match(line):"}]},
    {"name": "P2 line assembly as a join over enumerate", "file": FMT, "expect": "silent",
     "old": "        lines = list(val.splitlines())\n        first_line = True\n        while lines:\n"
            "            line = lines.pop(0)\n            prefix = \"\"\n            suffix = \"\"\n"
            "            if first_line:\n                first_line = False\n            else:\n"
            "                prefix = \"    \"\n\n            if lines:\n                suffix = \" \\\\\\n\"\n"
            "            newstr += f\"{prefix}{line}{suffix}\"\n        return newstr\n",
     "new": "        rows = val.splitlines()\n        pad = \"  \"\n        cont = \" \\\\\\n\"\n"
            "        return newstr + \"\".join((pad if i else \"\") + row + (cont if i < len(rows) - 1 else \"\")\n"
            "                                for i, row in enumerate(rows))\n"},
    {"name": "R2 join-style assembly with a semicolon marker", "file": FMT, "expect": "C11.R2",
     "old": "        lines = list(val.splitlines())\n        first_line = True\n        while lines:\n"
            "            line = lines.pop(0)\n            prefix = \"\"\n            suffix = \"\"\n"
            "            if first_line:\n                first_line = False\n            else:\n"
            "                prefix = \"    \"\n\n            if lines:\n                suffix = \" \\\\\\n\"\n"
            "            newstr += f\"{prefix}{line}{suffix}\"\n        return newstr\n",
     "new": "        rows = val.splitlines()\n        pad = \"  \"\n        cont = \" ;\\n\"\n"
            "        return newstr + \"\".join((pad if i else \"\") + row + (cont if i < len(rows) - 1 else \"\")\n"
            "                                for i, row in enumerate(rows))\n"},
    {"name": "P2/P3 header line parsing extracted into a static helper", "expect": "silent",
     "edits": [{"file": FMT,
                "old": "                first_split = [x for x in line.split(\" \") if x]\n"
                       "                direction, message_name = first_split[:2]\n"
                       "                options = [x.strip(\"[]\") for x in first_split[2:]]\n"
                       "                msg = Message(message_name)\n"
                       "                msg.direction = Direction[direction.upper()]\n"
                       "                for option in options:\n"
                       "                    if option in PacketFlags.__members__:\n"
                       "                        msg.send_flags |= PacketFlags[option]\n"
                       "                    elif re.match(r\"^\\d+$\", option):\n"
                       "                        msg.send_flags |= int(option)\n",
                "new": "                msg = cls._start_message(line)\n"},
               {"file": FMT, "old": "    @classmethod\n    def to_human_string(",
                "new": "    @staticmethod\n    def _start_message(header):\n"
                       "        tokens = [x for x in header.split(\" \") if x]\n"
                       "        new_msg = Message(tokens[1])\n"
                       "        new_msg.direction = Direction[tokens[0].upper()]\n"
                       "        for opt in (x.strip(\"[]\") for x in tokens[2:]):\n"
                       "            if opt in PacketFlags.__members__:\n"
                       "                new_msg.send_flags |= PacketFlags[opt]\n"
                       "            elif re.match(r\"^\\d+$\", opt):\n"
                       "                new_msg.send_flags |= int(opt)\n"
                       "        return new_msg\n\n"
                       "    @classmethod\n    def to_human_string("}]},
    {"name": "R4 floats printed rounded to six places", "file": FMT, "expect": "C11.R4",
     "old": "        else:\n            var_data = repr(var_val)\n",
     "new": "        elif isinstance(var_val, float):\n            var_data = repr(round(var_val, 6))\n"
            "        else:\n            var_data = repr(var_val)\n"},
    {"name": "R4 coordinates printed through numpy single precision", "file": FMT, "expect": "C11.R4",
     "edits": [{"file": FMT, "old": "import uuid\n", "new": "import uuid\nimport numpy\n"},
               {"file": FMT, "old": "            var_data = str(var_val)\n",
                "new": "            var_data = str(var_val) if isinstance(var_val, uuid.UUID) else \\\n"
                       "                str(tuple(float(numpy.float32(c)) for c in var_val))\n"}]},
    {"name": "P4 repr bound to a local first", "file": FMT, "expect": "silent",
     "old": "        else:\n            var_data = repr(var_val)\n",
     "new": "        else:\n            plain_repr = repr(var_val)\n            var_data = plain_repr\n"},
    {"name": "P4 coordinates printed component-wise with repr", "file": FMT, "expect": "silent",
     "old": "            var_data = str(var_val)\n",
     "new": "            var_data = str(var_val) if isinstance(var_val, uuid.UUID) else \\\n"
            "                \"<\" + \", \".join(repr(c) for c in var_val) + \">\"\n"},
    {"name": "X09.R2 IntFlag.decode builds the flag class from negatives (D7)", "file": SER, "expect": "C11.X09.R2",
     "old": "        if val < 0:\n            # Signed field with the sign bit set, enum.IntFlag can't represent\n"
            "            # negative values without changing them. Leave it as an int.\n            return val\n"
            "        return self.flag_cls(val)\n",
     "new": "        return self.flag_cls(val)\n"},
    {"name": "X09.R2 IntFlag.encode folds members with operator.or_", "file": SER, "expect": "C11.X09.R2",
     "old": "            new_val |= int(v)\n", "new": "            new_val = new_val | v\n"},
    {"name": "P5 accumulator renamed in IntFlag.encode", "expect": "silent",
     "edits": [{"file": SER, "old": "new_val", "new": "bits", "all": True}]},
    # ------------------------------------------------------------------ R6
    {"name": "R6 packed value serialized at its own line again (f60959f reverted)", "file": FMT, "expect": "C11.R6",
     "old": "                    pending_packed.append((cur_block, var_name, serializer, var_val))\n                    # Hold the variable's place in the block until we can serialize it\n                    var_val = None\n",
     "new": "                    var_val = serializer.serialize(cur_block, var_val)\n"},
    {"name": "R6 pending values flushed after every line", "file": FMT, "expect": "C11.R6",
     "old": "                cur_block[var_name] = var_val\n",
     "new": "                cur_block[var_name] = var_val\n                _serialize_pending_packed()\n"},
    {"name": "R6 no flush after the last line", "file": FMT, "expect": "C11.R6",
     "old": "        _serialize_pending_packed()\n        return msg\n", "new": "        return msg\n"},
    {"name": "P6 everything flushed once at the end of input", "file": FMT, "expect": "silent",
     "old": "                _serialize_pending_packed()\n                block_name = re.search(", "new": "                block_name = re.search("},
    {"name": "P6 closure renamed", "expect": "silent",
     "edits": [{"file": FMT, "old": "_serialize_pending_packed", "new": "_flush_packed", "all": True}]},
    {"name": "P6 the closure's drain loop moved into a static helper taking the work list", "expect": "silent",
     "edits": [{"file": FMT,
                "old": "            for block, var_name, serializer, val in pending_packed:\n"
                       "                block[var_name] = serializer.serialize(block, val)\n"
                       "            pending_packed.clear()\n",
                "new": "            cls._drain_packed(pending_packed)\n"},
               {"file": FMT, "old": "    @classmethod\n    def to_human_string(",
                "new": "    @staticmethod\n    def _drain_packed(todo):\n"
                       "        for blk, name, ser, raw in todo:\n"
                       "            blk[name] = ser.serialize(blk, raw)\n"
                       "        todo.clear()\n\n"
                       "    @classmethod\n    def to_human_string("}]},
    # ------------------------------------------------------------------ round 4
    {"name": "R4 coordinate components rounded before they are printed", "file": FMT, "expect": "C11.R4",
     "old": "\", \".join(_float_repr(x) for x in var_val)", "new": "\", \".join(_float_repr(round(x, 7)) for x in var_val)"},
    {"name": "R4 coordinate components scaled before they are printed", "file": FMT, "expect": "C11.R4",
     "old": "\", \".join(_float_repr(x) for x in var_val)", "new": "\", \".join(_float_repr(x * 1.0) for x in var_val)"},
    {"name": "P4 coordinate components rendered in a list comprehension", "file": FMT, "expect": "silent",
     "old": "\", \".join(_float_repr(x) for x in var_val)", "new": "\", \".join([_float_repr(comp) for comp in var_val])"},
    {"name": "P2 multi-line printer as a module-level function joining with the marker", "expect": "silent",
     "edits": [{"file": FMT, "old": "class HumanMessageSerializer:\n",
                "new": "_CONT = \" \\\\\\n\"\n\n\ndef _wrap_literal(val):\n"
                       "    rows = HippoPrettyPrinter(width=100).pformat(val).splitlines()\n"
                       "    return _CONT.join(r if i == 0 else \"    \" + r for i, r in enumerate(rows))\n\n\n"
                       "class HumanMessageSerializer:\n"},
               {"file": FMT, "old": "        printer = HippoPrettyPrinter(width=100)\n        val = printer.pformat(val)\n        newstr = \"\"\n",
                "new": "        return _wrap_literal(val)\n        printer = HippoPrettyPrinter(width=100)\n        val = printer.pformat(val)\n        newstr = \"\"\n"}]},
    # ------------------------------------------------------------------ round 5
    {"name": "P2 multi-line printer joins with marker + indent as one separator", "expect": "silent",
     "edits": [{"file": FMT, "old": "class HumanMessageSerializer:\n",
                "new": "_JOINT = \" \\\\\\n\" + \"  \"\n\n\ndef _wrapped(val):\n"
                       "    return _JOINT.join(HippoPrettyPrinter(width=100).pformat(val).splitlines())\n\n\n"
                       "class HumanMessageSerializer:\n"},
               {"file": FMT, "old": "        printer = HippoPrettyPrinter(width=100)\n        val = printer.pformat(val)\n        newstr = \"\"\n",
                "new": "        return _wrapped(val)\n        printer = HippoPrettyPrinter(width=100)\n        val = printer.pformat(val)\n        newstr = \"\"\n"}]},
    {"name": "R7 ObjectUpdate PCode packed through an identity adapter serializer", "expect": "C11.R7",
     "edits": [{"file": TEMPLATES, "old": "@se.enum_field_serializer(\"ObjectUpdate\", \"ObjectData\", \"PCode\")\n", "new": ""},
               {"file": TEMPLATES, "old": "@se.subfield_serializer(\"ObjectUpdate\", \"ObjectData\", \"State\")\n",
                "new": "@se.subfield_serializer(\"ObjectUpdate\", \"ObjectData\", \"PCode\")\n"
                       "class _PCodeByte(se.AdapterSubfieldSerializer):\n    ADAPTER = se.IdentityAdapter()\n\n\n"
                       "@se.subfield_serializer(\"ObjectUpdate\", \"ObjectData\", \"State\")\n"}]},
    {"name": "R7 parser no longer resolves enum serializers first", "file": FMT, "expect": "C11.R7",
     "old": "            standalone = (se.IntEnumSubfieldSerializer, se.IntFlagSubfieldSerializer)\n",
     "new": "            standalone = (se.IntFlagSubfieldSerializer,)\n"},
    {"name": "P7 standalone kinds listed in the other order", "file": FMT, "expect": "silent",
     "old": "            standalone = (se.IntEnumSubfieldSerializer, se.IntFlagSubfieldSerializer)\n",
     "new": "            standalone = (se.IntFlagSubfieldSerializer, se.IntEnumSubfieldSerializer)\n"},
    {"name": "R8 two-valued adapter on a two-bit field", "file": TEMPLATES, "expect": "C11.R8",
     "old": "    Invert: bool = se.bitfield_field(bits=1, adapter=se.BoolAdapter())\n",
     "new": "    Invert: bool = se.bitfield_field(bits=2, adapter=se.BoolAdapter())\n"},
    {"name": "R8 BOOL alias wraps the byte in the two-valued adapter", "file": SER, "expect": "C11.R8",
     "old": "BOOL = U8\n", "new": "BOOL = BoolAdapter(U8)\n"},
    {"name": "P8 keyword order of a one-bit boolean field", "file": TEMPLATES, "expect": "silent",
     "old": "    Invert: bool = se.bitfield_field(bits=1, adapter=se.BoolAdapter())\n",
     "new": "    Invert: bool = se.bitfield_field(adapter=se.BoolAdapter(), bits=1)\n"},
    {"name": "R9 name-value list gains a class-tagged repr", "file": "hippolyzer/lib/base/namevalue.py", "expect": "C11.R9",
     "old": "    def __str__(self):\n        return \"\\n\".join(str(x) for x in self)\n",
     "new": "    def __str__(self):\n        return \"\\n\".join(str(x) for x in self)\n\n"
            "    def __repr__(self):\n        return \"NameValueCollection(%s)\" % list.__repr__(self)\n"},
    {"name": "P9 name-value list gains a helper method", "file": "hippolyzer/lib/base/namevalue.py", "expect": "silent",
     "old": "    def __str__(self):\n        return \"\\n\".join(str(x) for x in self)\n",
     "new": "    def __str__(self):\n        return \"\\n\".join(str(x) for x in self)\n\n"
            "    def names(self):\n        return [x.name for x in self]\n"},
    # ------------------------------------------------------------------ round 6
    {"name": "R2 raw line commented out before the pretty printer ran", "file": FMT, "expect": "C11.R2",
     "edits": [{"file": FMT, "old": "            try:\n                pretty_data = serializer.deserialize(block, var_val, pod=True)\n",
                "new": "            field_prefix = \"#\"\n            try:\n                pretty_data = serializer.deserialize(block, var_val, pod=True)\n"}]},
    {"name": "P2 comment prefix chosen in a local before it is applied after the pretty line", "file": FMT, "expect": "silent",
     "old": "                    # Human-readable version should be used, orig data is commented out\n                    field_prefix = \"#\"\n",
     "new": "                    # Human-readable version should be used, orig data is commented out\n"
            "                    comment_marker = \"#\"\n                    field_prefix = comment_marker\n"},
    {"name": "R7 pending values drained from the end of the sorted list", "file": FMT, "expect": "C11.R7",
     "old": "            for block, var_name, serializer, val in pending_packed:\n                block[var_name] = serializer.serialize(block, val)\n",
     "new": "            while pending_packed:\n                block, var_name, serializer, val = pending_packed.pop()\n"
            "                block[var_name] = serializer.serialize(block, val)\n"},
    {"name": "P7 pending values drained from the front with pop(0)", "file": FMT, "expect": "silent",
     "old": "            for block, var_name, serializer, val in pending_packed:\n                block[var_name] = serializer.serialize(block, val)\n",
     "new": "            while pending_packed:\n                block, var_name, serializer, val = pending_packed.pop(0)\n"
            "                block[var_name] = serializer.serialize(block, val)\n"},
    {"name": "R10 TE section separator written before the absent-section early-out", "file": TEMPLATES, "expect": "C11.R10",
     "old": "        if self._optional and not vals:\n            return\n\n        # NUL needed to mark the start of a field if this isn't the first one\n"
            "        if not self._first:\n            writer.write_bytes(b\"\\x00\")\n",
     "new": "        if not self._first:\n            writer.write_bytes(b\"\\x00\")\n        if not vals and self._optional:\n            return None\n"},
    {"name": "P10 absent-section early-out as a nested guard", "file": TEMPLATES, "expect": "silent",
     "old": "        if self._optional and not vals:\n            return\n\n        # NUL needed",
     "new": "        if self._optional:\n            if not vals:\n                return\n\n        # NUL needed"},
    # ------------------------------------------------------------------ round 7
    {"name": "P11 an empty block list is announced by a comment line", "file": FMT, "expect": "silent",
     "old": "            for block_num, block in enumerate(block_list):\n",
     "new": "            if not block_list:\n                string += f\"# [{block_name}] has no blocks\\n\"\n"
            "            for block_num, block in enumerate(block_list):\n"},
    {"name": "P11 text collected in a parts list", "file": FMT, "expect": "silent",
     "edits": [{"file": FMT, "old": "                string += f\"[{block_name}]{block_suffix}\\n\"\n",
                "new": "                pieces = [f\"[{block_name}]{block_suffix}\\n\"]\n                string += pieces[0]\n"}]},
    {"name": "R12 binary quaternion packer renormalises hand-written components", "file": "hippolyzer/lib/base/message/data_packer.py",
     "expect": "C11.R12",
     "old": "            return struct_obj.pack(*x.data(needed_elems)[:needed_elems])\n",
     "new": "            comps = x.data(needed_elems)[:needed_elems]\n            norm_ = sum(c * c for c in comps) ** 0.5 or 1.0\n"
            "            return struct_obj.pack(*[c / norm_ for c in comps])\n"},
    {"name": "P12 binary quaternion packer only warns about non-unit input", "file": "hippolyzer/lib/base/message/data_packer.py",
     "expect": "silent",
     "old": "            return struct_obj.pack(*x.data(needed_elems)[:needed_elems])\n",
     "new": "            if abs(sum(c * c for c in x) - 1.0) > 0.01:\n                pass\n"
            "            return struct_obj.pack(*x.data(needed_elems)[:needed_elems])\n"},
    {"name": "R13 C strings decoded with errors='replace'", "expect": "C11.R13",
     "edits": [{"file": SER, "old": ".rstrip(b\"\\x00\").decode(\"utf8\")", "new": ".rstrip(b\"\\x00\").decode(\"utf8\", \"replace\")", "all": True}]},
    {"name": "P13 C strings decoded with an explicit strict handler", "expect": "silent",
     "edits": [{"file": SER, "old": ".rstrip(b\"\\x00\").decode(\"utf8\")", "new": ".rstrip(b\"\\x00\").decode(\"utf8\", errors=\"strict\")", "all": True}]},
    {"name": "R4 long literal pieces rendered by the pretty printer", "file": HELPERS, "expect": "C11.R4",
     "old": "        reprs = \"\\n\".join(repr(x) for x in split)\n",
     "new": "        reprs = \"\\n\".join(self._base_pformat(piece) for piece in split)\n"},
    {"name": "P4 literal pieces rendered by repr in a list comprehension", "file": HELPERS, "expect": "silent",
     "old": "        reprs = \"\\n\".join(repr(x) for x in split)\n",
     "new": "        reprs = \"\\n\".join([repr(piece) for piece in split])\n"},
    # ------------------------------------------------------------------ round 8
    {"name": "R14 U8 variables unpacked through bool()", "file": "hippolyzer/lib/base/message/data_packer.py", "expect": "C11.R14",
     "edits": [{"file": "hippolyzer/lib/base/message/data_packer.py", "old": "def _make_tuplecoord_spec(",
                "new": "def _make_flag_spec(struct_fmt: str) -> SPEC:\n    struct_obj = struct.Struct(struct_fmt)\n"
                       "    return (lambda raw: bool(struct_obj.unpack(raw)[0])), struct_obj.pack\n\n\ndef _make_tuplecoord_spec("},
               {"file": "hippolyzer/lib/base/message/data_packer.py", "old": "        MsgType.MVT_BOOL: _make_struct_spec('B'),\n",
                "new": "        MsgType.MVT_BOOL: _make_flag_spec('B'),\n"}]},
    {"name": "P14 BOOL row through its own factory without narrowing", "expect": "silent",
     "edits": [{"file": "hippolyzer/lib/base/message/data_packer.py", "old": "def _make_tuplecoord_spec(",
                "new": "def _make_flag_spec(struct_fmt: str) -> SPEC:\n    struct_obj = struct.Struct(struct_fmt)\n"
                       "    return (lambda raw: struct_obj.unpack(raw)[0]), struct_obj.pack\n\n\ndef _make_tuplecoord_spec("},
               {"file": "hippolyzer/lib/base/message/data_packer.py", "old": "        MsgType.MVT_BOOL: _make_struct_spec('B'),\n",
                "new": "        MsgType.MVT_BOOL: _make_flag_spec('B'),\n"}]},
    {"name": "R15 face bitfield reader keeps only the low 32 faces", "file": TEMPLATES, "expect": "C11.R15",
     "old": "        # Bitfield of faces reconstructed, convert to tuple\n        i = 0\n",
     "new": "        # Bitfield of faces reconstructed, convert to tuple\n        val &= 0xFFFFFFF\n        i = 0\n"},
    {"name": "P15 face bitfield reader accumulates in one expression", "file": TEMPLATES, "expect": "silent",
     "old": "            have_next = char & 0x80\n            val |= char & 0x7F\n            if have_next:\n                val <<= 7\n",
     "new": "            have_next = bool(char & 0x80)\n            val = val | (char & 0x7F)\n            if have_next:\n                val = val << 7\n"},
    {"name": "R16 non-finite float branch removed again (D48 reverted)", "file": FMT, "expect": "C11.R16",
     "old": "                    elif re.match(r\"\\A[-+]?(inf|nan)\\Z\", var_val):\n                        var_val = float(var_val)\n",
     "new": ""},
    {"name": "R16 branch only knows infinity", "file": FMT, "expect": "C11.R16",
     "old": "                    elif re.match(r\"\\A[-+]?(inf|nan)\\Z\", var_val):\n",
     "new": "                    elif re.match(r\"\\A[-+]?inf\\Z\", var_val):\n"},
    {"name": "P16 non-finite test written with lstrip and a tuple", "file": FMT, "expect": "silent",
     "old": "                    elif re.match(r\"\\A[-+]?(inf|nan)\\Z\", var_val):\n",
     "new": "                    elif var_val.lstrip(\"+-\") in (\"inf\", \"nan\"):\n"},
    {"name": "P16 non-finite spellings in a module-level constant", "expect": "silent",
     "edits": [{"file": FMT, "old": "class HumanMessageSerializer:\n",
                "new": "_NON_FINITE = frozenset({\"inf\", \"-inf\", \"+inf\", \"nan\"})\n\n\nclass HumanMessageSerializer:\n"},
               {"file": FMT, "old": "                    elif re.match(r\"\\A[-+]?(inf|nan)\\Z\", var_val):\n",
                "new": "                    elif var_val in _NON_FINITE:\n"}]},
    # ------------------------------------------------------------------ audit round (anchored on the FIXED text)
    {"name": "R11 empty block lists no longer announced (fix reverted, formatter side)", "file": FMT, "expect": "C11.R11",
     "old": "            if not block_list:\n                # A variable block with a count of 0 is still there on the wire, and whether\n"
            "                # it was seen matters when the message is serialized again.\n"
            "                string += f\"[{block_name}] * 0{block_suffix}\\n\"\n",
     "new": ""},
    {"name": "R11 parser treats the zero marker as an ordinary block (fix reverted, parser side)", "file": FMT, "expect": "C11.R11",
     "old": "                if re.match(r\"^\\[\\w+]\\s*\\*\\s*0\\b\", line):\n"
            "                    # `[Name] * 0`, the block is present but has no entries\n"
            "                    msg.create_block_list(block_name)\n                    cur_block = None\n"
            "                else:\n                    cur_block = Block(block_name)\n                    msg.add_block(cur_block)\n",
     "new": "                cur_block = Block(block_name)\n                msg.add_block(cur_block)\n"},
    {"name": "P11 zero marker recognised by a guard clause", "file": FMT, "expect": "silent",
     "old": "                if re.match(r\"^\\[\\w+]\\s*\\*\\s*0\\b\", line):\n"
            "                    # `[Name] * 0`, the block is present but has no entries\n"
            "                    msg.create_block_list(block_name)\n                    cur_block = None\n"
            "                else:\n                    cur_block = Block(block_name)\n                    msg.add_block(cur_block)\n",
     "new": "                if re.match(r\"^\\[\\w+]\\s*\\*\\s*0\\b\", line):\n"
            "                    msg.create_block_list(block_name)\n                    cur_block = None\n                    continue\n"
            "                cur_block = Block(block_name)\n                msg.add_block(cur_block)\n"},
    {"name": "R16 packed values back to plain literal_eval (fix reverted)", "file": FMT, "expect": "C11.R16",
     "old": "                        var_val = _literal_eval(var_val)\n", "new": "                        var_val = ast.literal_eval(var_val)\n"},
    {"name": "R16 name rewriting only knows inf", "file": FMT, "expect": "C11.R16",
     "old": "        if node.id in (\"inf\", \"nan\"):\n", "new": "        if node.id in (\"inf\",):\n"},
    {"name": "P16 name rewriting with a dict of spellings", "file": FMT, "expect": "silent",
     "old": "        if node.id in (\"inf\", \"nan\"):\n            return ast.copy_location(ast.Constant(float(node.id)), node)\n",
     "new": "        known = {\"inf\": math.inf, \"nan\": math.nan}\n        if node.id in known:\n"
            "            return ast.copy_location(ast.Constant(known[node.id]), node)\n"},
    {"name": "R17 scalar floats printed with plain repr again (fix reverted)", "file": FMT, "expect": "C11.R17",
     "old": "        elif isinstance(var_val, float):\n            var_data = _float_repr(var_val)\n", "new": ""},
    {"name": "R17 coordinate components printed with repr", "file": FMT, "expect": "C11.R17",
     "old": "            var_data = \"<\" + \", \".join(_float_repr(x) for x in var_val) + \">\"\n",
     "new": "            var_data = \"<\" + \", \".join(repr(x) for x in var_val) + \">\"\n"},
    {"name": "P17 sign-aware float renderer renamed", "expect": "silent",
     "edits": [{"file": FMT, "old": "_float_repr", "new": "_repr_keeping_nan_sign", "all": True}]},
    # ------------------------------------------------------------------ audit round 2 (anchored on the FIXED text)
    {"name": "R17 pretty printer prints every NaN as nan again (fix reverted)", "file": HELPERS, "expect": "C11.R17",
     "old": "        if type(obj) is float and obj != obj and math.copysign(1.0, obj) < 0:\n            return \"-nan\", True, False\n",
     "new": ""},
    {"name": "P17 pretty printer tests the NaN sign with isnan and copysign", "file": HELPERS, "expect": "silent",
     "old": "        if type(obj) is float and obj != obj and math.copysign(1.0, obj) < 0:\n",
     "new": "        if type(obj) is float and math.isnan(obj) and math.copysign(1.0, obj) == -1.0:\n"},
    # ------------------------------------------------------------------ refactor round 8 twins
    {"name": "P2 block suffix computed by a helper returning a module constant", "expect": "silent",
     "edits": [{"file": FMT, "old": "class HumanMessageSerializer:\n", "new": "_VAR_SUFFIX = '  # Variable'\n\n\nclass HumanMessageSerializer:\n"},
               {"file": FMT, "old": "            block_suffix = \"\"\n            if template and template.get_block(block_name).block_type == MsgBlockType.MBT_VARIABLE:\n"
                                    "                block_suffix = '  # Variable'\n",
                "new": "            block_suffix = cls._suffix_for(template, block_name)\n"},
               {"file": FMT, "old": "    @classmethod\n    def _format_var(",
                "new": "    @staticmethod\n    def _suffix_for(template, block_name):\n"
                       "        if template and template.get_block(block_name).block_type == MsgBlockType.MBT_VARIABLE:\n"
                       "            return _VAR_SUFFIX\n        return \"\"\n\n    @classmethod\n    def _format_var("}]},
    # ------------------------------------------------------------------ round 9
    {"name": "R18 F32 read back through a %.8g text form", "file": SER, "expect": "C11.R18",
     "old": '    def deserialize(self, reader: Reader, ctx):\n        return super().deserialize(reader, ctx)[0]\n',
     "new": "    def deserialize(self, reader: Reader, ctx):\n        val = super().deserialize(reader, ctx)[0]\n"
            "        if isinstance(val, float) and reader.pod:\n            val = float(\"%.8g\" % val)\n        return val\n"},
    {"name": "R18 reader rounds through format(v, '.6f')", "file": SER, "expect": "C11.R18",
     "old": '    def deserialize(self, reader: Reader, ctx):\n        return super().deserialize(reader, ctx)[0]\n',
     "new": "    def deserialize(self, reader: Reader, ctx):\n        val = super().deserialize(reader, ctx)[0]\n"
            "        if isinstance(val, float):\n            val = float(format(val, \".6f\"))\n        return val\n"},
    {"name": "P18 reader goes through a full-precision text form", "file": SER, "expect": "silent",
     "old": '    def deserialize(self, reader: Reader, ctx):\n        return super().deserialize(reader, ctx)[0]\n',
     "new": "    def deserialize(self, reader: Reader, ctx):\n        val = super().deserialize(reader, ctx)[0]\n"
            "        if isinstance(val, float) and reader.pod:\n            val = float(\"%.17g\" % val)\n        return val\n"},
    {"name": "P18 reader names the value before returning it", "file": SER, "expect": "silent",
     "old": '    def deserialize(self, reader: Reader, ctx):\n        return super().deserialize(reader, ctx)[0]\n',
     "new": "    def deserialize(self, reader: Reader, ctx):\n        val = super().deserialize(reader, ctx)[0]\n        return val\n"},
    {"name": "P3 registry reached through an accessor helper with an optional override", "expect": "silent",
     "edits": [{"file": FMT, "old": "def _float_repr(val: float) -> str:\n", "new": 'def _subfield_serializers(override=None):\n    """The registry to use, looked up late"""\n    if override is not None:\n        return override\n    return se.SUBFIELD_SERIALIZERS\n\n\n' + "def _float_repr(val: float) -> str:\n"},
               {"file": FMT, "all": True, "old": "serializer = se.SUBFIELD_SERIALIZERS.get(ser_key)",
                "new": "serializer = _subfield_serializers().get(ser_key)"}]},
    {"name": "R6 accessor helper, packed value serialized at the lookup again", "expect": "C11.R6",
     "edits": [{"file": FMT, "old": "def _float_repr(val: float) -> str:\n", "new": 'def _subfield_serializers(override=None):\n    """The registry to use, looked up late"""\n    if override is not None:\n        return override\n    return se.SUBFIELD_SERIALIZERS\n\n\n' + "def _float_repr(val: float) -> str:\n"},
               {"file": FMT, "all": True, "old": "serializer = se.SUBFIELD_SERIALIZERS.get(ser_key)",
                "new": "serializer = _subfield_serializers().get(ser_key)"},
               {"file": FMT, "old": "                    pending_packed.append((cur_block, var_name, serializer, var_val))\n",
                "new": "                    var_val = serializer.serialize(cur_block, var_val)\n                    pending_packed.clear()\n"}]},
    # ------------------------------------------------------------------ documented limits
    {"name": "X wrap width changed (line-wrapping details are value level)", "file": FMT, "expect": "miss",
     "old": "HippoPrettyPrinter(width=100)", "new": "HippoPrettyPrinter(width=40)"},
    {"name": "X UUID sniffing pattern loosened (value level)", "file": FMT, "expect": "miss",
     "old": r'elif re.match(r"\A\w+-\w+-.*", var_val):', "new": r'elif re.match(r"\A\w+-\w+.*", var_val):'},
]
