"""Self-test corpus for C12: text edits on a scratch overlay (never on /repo)."""
LLSD = "hippolyzer/lib/base/llsd.py"
PACK = "hippolyzer/lib/base/message/data_packer.py"
MSGSER = "hippolyzer/lib/base/message/llsd_msg_serializer.py"
LOGGER = "hippolyzer/lib/proxy/message_logger.py"
SER = "hippolyzer/lib/base/serialization.py"
MSG = "hippolyzer/lib/base/message/message.py"

COPY_ELSE = ("        else:\n"
             "            llsd_val = copy.deepcopy(llsd_val)\n")
COPY_IF = ("        if isinstance(llsd_val, bytes):\n"
           "            llsd_val = llsd.parse(llsd_val)\n" + COPY_ELSE)
TZ_NORM = ("        if something.tzinfo is None:\n"
           "            # Naive datetimes are UTC in LLSD, timestamp() would treat them as local time\n"
           "            something = something.replace(tzinfo=datetime.timezone.utc)\n")
URI_BRANCH = ("    elif isinstance(something, uri):\n"
              "        return b'l' + struct.pack('!i', len(something)) + something.encode(\"utf8\")\n")
STR_BRANCH_HEAD = "    elif is_string(something):\n"
STRING_OVERRIDE = ("    def STRING(self, v):\n"
                   "        # llbase's notation LLSD encoder isn't suitable for generating line-delimited\n"
                   "        # LLSD because the string formatter leaves \\n unencoded, unlike indra's llcommon.\n"
                   "        # Add our own escaping rule.\n"
                   "        return super().STRING(v).replace(b\"\\n\", b\"\\\\n\")\n")

VARIANTS = [
    # ------------------------------------------------------------------ R1 breaking
    {"name": "R1 .data() on the rebound tuple again (D10)", "file": PACK, "expect": "C12.R1",
     "old": "            return list(x.data(needed_elems)[:needed_elems])\n",
     "new": "            x = x.data()\n            return list(x.data(needed_elems))\n"},
    {"name": "R1 U64 carried as signed 64 bit", "file": PACK, "expect": "C12.R1",
     "old": "MsgType.MVT_U64: _make_struct_spec('!Q'),", "new": "MsgType.MVT_U64: _make_struct_spec('!q'),"},
    {"name": "R1 U32 carried in two bytes", "file": PACK, "expect": "C12.R1",
     "old": "MsgType.MVT_U32: _make_struct_spec('!I'),", "new": "MsgType.MVT_U32: _make_struct_spec('!H'),"},
    {"name": "R1 LLVector3d rebuilt as Vector4", "file": PACK, "expect": "C12.R1",
     "old": "MsgType.MVT_LLVector3d: _make_llsd_tuplecoord_spec(Vector3),", "new": "MsgType.MVT_LLVector3d: _make_llsd_tuplecoord_spec(Vector4),"},
    {"name": "R1 LLSDDataPacker without its own derived tables", "file": PACK, "expect": "C12.R1",
     "old": "@_unpack_specs\nclass LLSDDataPacker(TemplateDataPacker):", "new": "class LLSDDataPacker(TemplateDataPacker):"},
    {"name": "R1 IP pair swapped in the LLSD table", "file": PACK, "expect": "C12.R1",
     "old": "        MsgType.MVT_IP_ADDR: (socket.inet_ntoa, socket.inet_aton),\n        # LLSD ints",
     "new": "        MsgType.MVT_IP_ADDR: (socket.inet_aton, socket.inet_ntoa),\n        # LLSD ints"},
    {"name": "R1 deserialize unpacks with the binary table", "file": MSGSER, "expect": "C12.R1",
     "old": "LLSDDataPacker.unpack(val, tmpl_var.type)", "new": "TemplateDataPacker.unpack(val, tmpl_var.type)"},
    {"name": "R1 serialize packs by the variable's name", "file": MSGSER, "expect": "C12.R1",
     "old": "LLSDDataPacker.pack(val, tmpl_var.type)", "new": "LLSDDataPacker.pack(val, tmpl_var.name)"},
    {"name": "R1 unpacker ignores the coordinate class", "file": PACK, "expect": "C12.R1",
     "old": "    return lambda x: typ(*x), _packer\n", "new": "    return lambda x: tuple(x), _packer\n"},
    {"name": "R1 deserialize makes a shallow copy", "file": MSGSER, "expect": "C12.R1",
     "old": "            llsd_val = copy.deepcopy(llsd_val)\n", "new": "            llsd_val = dict(llsd_val)\n"},
    {"name": "R1 deserialize copies two levels only (seeded shape)", "file": MSGSER, "expect": "C12.R1",
     "old": COPY_ELSE,
     "new": "        else:\n            llsd_val = {**llsd_val, 'body': {k: list(v) for k, v in llsd_val['body'].items()}}\n"},
    {"name": "R1 deserialize works on the caller's dict", "file": MSGSER, "expect": "C12.R1", "old": COPY_ELSE, "new": ""},
    {"name": "R1 deserialize .copy() of the argument", "file": MSGSER, "expect": "C12.R1",
     "old": "            llsd_val = copy.deepcopy(llsd_val)\n", "new": "            llsd_val = llsd_val.copy()\n"},
    # ------------------------------------------------------------------ R1 preserving
    {"name": "P1 rename the packer closures", "expect": "silent",
     "edits": [{"file": PACK, "old": "_packer", "new": "_pack_coord", "all": True}]},
    {"name": "P1 deepcopy imported by name", "expect": "silent",
     "edits": [{"file": MSGSER, "old": "import copy\n", "new": "import copy\nfrom copy import deepcopy\n"},
               {"file": MSGSER, "old": "copy.deepcopy(llsd_val)", "new": "deepcopy(llsd_val)"}]},
    {"name": "P1 negated test, branches swapped", "file": MSGSER, "expect": "silent",
     "old": COPY_IF,
     "new": "        if not isinstance(llsd_val, bytes):\n            llsd_val = copy.deepcopy(llsd_val)\n"
            "        else:\n            llsd_val = llsd.parse(llsd_val)\n"},
    {"name": "P1 private copy made by a helper", "expect": "silent",
     "edits": [{"file": MSGSER, "old": COPY_IF, "new": "        llsd_val = self._private_tree(llsd_val)\n"},
               {"file": MSGSER, "old": "    def deserialize(self,",
                "new": "    def _private_tree(self, val):\n        if isinstance(val, bytes):\n            return llsd.parse(val)\n"
                       "        return copy.deepcopy(val)\n\n    def deserialize(self,"}]},
    {"name": "P1 loop variables renamed in deserialize", "file": MSGSER, "expect": "silent",
     "old": "        for block, tmpl_var in self._yield_vars(llsd_val):\n            val = block[tmpl_var.name]\n            if tmpl_var.type in _BINARY_PACKED and not isinstance(val, bytes):\n                # Only the <binary> form needs unpacking. Other implementations (OpenSim) write\n                # the values that fit as plain LLSD integers / strings, those are usable as-is.\n                continue\n            block[tmpl_var.name] = LLSDDataPacker.unpack(val, tmpl_var.type)\n",
     "new": "        for blk, tvar in self._yield_vars(llsd_val):\n            if tvar.type in _BINARY_PACKED and not isinstance(blk[tvar.name], bytes):\n"
            "                continue\n            blk[tvar.name] = LLSDDataPacker.unpack(blk[tvar.name], tvar.type)\n"},
    {"name": "P1 reorder LLSD SPECS rows", "file": PACK, "expect": "silent",
     "old": "        MsgType.MVT_U64: _make_struct_spec('!Q'),\n        MsgType.MVT_S64: _make_struct_spec('!q'),\n",
     "new": "        MsgType.MVT_S64: _make_struct_spec('!q'),\n        MsgType.MVT_U64: _make_struct_spec('!Q'),\n"},
    # ------------------------------------------------------------------ R2
    {"name": "R2 dates written big-endian", "file": LLSD, "expect": "C12.R2",
     "old": "return b'd' + struct.pack('<d', something.timestamp())", "new": "return b'd' + struct.pack('!d', something.timestamp())"},
    {"name": "R2 dates parsed big-endian", "file": LLSD, "expect": "C12.R2",
     "old": 'seconds = struct.unpack("<d", self._getc(8))[0]', "new": 'seconds = struct.unpack("!d", self._getc(8))[0]'},
    {"name": "R2 date parser reads 4 bytes", "file": LLSD, "expect": "C12.R2",
     "old": 'seconds = struct.unpack("<d", self._getc(8))[0]', "new": 'seconds = struct.unpack("<d", self._getc(4))[0]'},
    {"name": "R2 UUIDs under an unknown tag", "file": LLSD, "expect": "C12.R2",
     "old": "return b'u' + something.bytes", "new": "return b'U' + something.bytes"},
    {"name": "R2 UUID override consumes 15 bytes", "file": LLSD, "expect": "C12.R2",
     "old": "lambda: UUID(bytes=self._getc(16))", "new": "lambda: UUID(bytes=self._getc(15))"},
    {"name": "R2 binary length written unsigned 16 bit", "file": LLSD, "expect": "C12.R2",
     "old": "return b'b' + struct.pack('!i', len(something)) + something", "new": "return b'b' + struct.pack('!H', len(something)) + something"},
    {"name": "R2 map key length counted before encoding", "file": LLSD, "expect": "C12.R2",
     "edits": [{"file": LLSD, "old": "            if isinstance(key, str):\n                key = key.encode(\"utf8\")\n", "new": ""},
               {"file": LLSD, "old": "map_builder.append(b'k' + struct.pack('!i', len(key)) + key)",
                "new": "map_builder.append(b'k' + struct.pack('!i', len(key)) + key.encode(\"utf8\"))"}]},
    {"name": "R2 date branch ahead of the datetime branch", "file": LLSD, "expect": "C12.R2",
     "edits": [{"file": LLSD, "old": "    elif isinstance(something, datetime.date):\n        seconds_since_epoch = calendar.timegm(something.timetuple())\n"
                                     "        return b'd' + struct.pack('<d', seconds_since_epoch)\n", "new": ""},
               {"file": LLSD, "old": "    elif isinstance(something, datetime.datetime):\n",
                "new": "    elif isinstance(something, datetime.date):\n        seconds_since_epoch = calendar.timegm(something.timetuple())\n"
                       "        return b'd' + struct.pack('<d', seconds_since_epoch)\n    elif isinstance(something, datetime.datetime):\n"}]},
    {"name": "R2 uri branch after the string branch again (D23 reverted)", "expect": "C12.R2",
     "edits": [{"file": LLSD,
                "old": "    elif isinstance(something, uri):\n        # Has to come before the string case, `uri` is a `str` subclass\n"
                       "        something = something.encode(\"utf8\")\n        return b'l' + struct.pack('!i', len(something)) + something\n",
                "new": ""},
               {"file": LLSD,
                "old": "    elif isinstance(something, datetime.datetime):\n",
                "new": "    elif isinstance(something, uri):\n        something = something.encode(\"utf8\")\n"
                       "        return b'l' + struct.pack('!i', len(something)) + something\n"
                       "    elif isinstance(something, datetime.datetime):\n"}]},
    {"name": "R2 uri prefix counts characters", "file": LLSD, "expect": "C12.R2",
     "old": "        something = something.encode(\"utf8\")\n        return b'l' + struct.pack('!i', len(something)) + something\n",
     "new": "        return b'l' + struct.pack('!i', len(something)) + something.encode(\"utf8\")\n"},
    {"name": "P2 uri branch encodes into a fresh local", "file": LLSD, "expect": "silent",
     "old": "        something = something.encode(\"utf8\")\n        return b'l' + struct.pack('!i', len(something)) + something\n",
     "new": "        encoded = something.encode(\"utf8\")\n        return b'l' + struct.pack('!i', len(encoded)) + encoded\n"},
    {"name": "P2 rename the formatter's parameter", "expect": "silent",
     "edits": [{"file": LLSD, "old": "something", "new": "value", "all": True}]},
    {"name": "P2 string predicate spelled as isinstance", "file": LLSD, "expect": "silent",
     "old": STR_BRANCH_HEAD, "new": "    elif isinstance(something, (str,)):\n"},
    {"name": "P2 array builder as a comprehension", "file": LLSD, "expect": "silent",
     "old": "        array_builder = [b'[' + struct.pack('!i', len(list_something))]\n"
            "        for item in list_something:\n            array_builder.append(_format_binary_recurse(item))\n",
     "new": "        array_builder = [b'[' + struct.pack('!i', len(list_something))]\n"
            "        array_builder.extend(_format_binary_recurse(item) for item in list_something)\n"},
    # ------------------------------------------------------------------ R3
    {"name": "R3 naive .timestamp() again (D11)", "file": LLSD, "expect": "C12.R3", "old": TZ_NORM, "new": ""},
    {"name": "R3 astimezone() on possibly naive values (seeded shape)", "file": LLSD, "expect": "C12.R3",
     "old": TZ_NORM, "new": "        something = something.astimezone(datetime.timezone.utc)\n"},
    {"name": "R3 parser builds local-time datetimes", "file": LLSD, "expect": "C12.R3",
     "old": "datetime.datetime.fromtimestamp(seconds, tz=datetime.timezone.utc)", "new": "datetime.datetime.fromtimestamp(seconds)"},
    {"name": "R3 date branch through time.mktime", "file": LLSD, "expect": "C12.R3",
     "edits": [{"file": LLSD, "old": "import calendar\n", "new": "import calendar\nimport time\n"},
               {"file": LLSD, "old": "seconds_since_epoch = calendar.timegm(something.timetuple())",
                "new": "seconds_since_epoch = time.mktime(something.timetuple())"}]},
    {"name": "P3 datetime branch through timegm(utctimetuple())", "file": LLSD, "expect": "silent",
     "old": TZ_NORM + "        return b'd' + struct.pack('<d', something.timestamp())\n",
     "new": "        seconds = calendar.timegm(something.utctimetuple()) + something.microsecond / 1e6\n"
            "        return b'd' + struct.pack('<d', seconds)\n"},
    {"name": "P3 tz test as explicit if/else", "file": LLSD, "expect": "silent",
     "old": TZ_NORM + "        return b'd' + struct.pack('<d', something.timestamp())\n",
     "new": "        if something.tzinfo is not None:\n            seconds = something.timestamp()\n        else:\n"
            "            seconds = calendar.timegm(something.timetuple()) + something.microsecond / 1e6\n"
            "        return b'd' + struct.pack('<d', seconds)\n"},
    # ------------------------------------------------------------------ R4
    {"name": "R4 STRING override without the replacement", "file": LLSD, "expect": "C12.R4",
     "old": 'return super().STRING(v).replace(b"\\n", b"\\\\n")', "new": "return super().STRING(v)"},
    {"name": "R4 override escapes carriage returns instead", "file": LLSD, "expect": "C12.R4",
     "old": 'return super().STRING(v).replace(b"\\n", b"\\\\n")', "new": 'return super().STRING(v).replace(b"\\r", b"\\\\r")'},
    {"name": "R4 override moved behind the third-party base", "expect": "C12.R4",
     "edits": [{"file": LLSD, "old": "\n" + STRING_OVERRIDE, "new": ""},
               {"file": LLSD, "old": "    def TUPLECOORD(self, v: TupleCoord):\n        return self.ARRAY(v.data())\n",
                "new": "    def TUPLECOORD(self, v: TupleCoord):\n        return self.ARRAY(v.data())\n\n" + STRING_OVERRIDE}]},
    {"name": "R4 log export through the third-party formatter", "file": LOGGER, "expect": "C12.R4",
     "old": "val['event'] = llsd.format_notation(self.event)", "new": "val['event'] = llsd.base_llsd.format_notation(self.event)"},
    {"name": "R4 format_notation builds the third-party formatter", "file": LLSD, "expect": "C12.R4",
     "old": "    return HippoLLSDNotationFormatter().format(val)\n",
     "new": "    return base_llsd.serde_notation.LLSDNotationFormatter().format(val)\n"},
    {"name": "P4 Hippo llsd imported under an alias", "expect": "silent",
     "edits": [{"file": LOGGER, "old": "from hippolyzer.lib.base import serialization as se, llsd\n",
                "new": "from hippolyzer.lib.base import serialization as se, llsd as hippo_llsd\n"},
               {"file": LOGGER, "old": "llsd.", "new": "hippo_llsd.", "all": True}]},
    {"name": "P4 carriage returns escaped as well", "file": LLSD, "expect": "silent",
     "old": 'return super().STRING(v).replace(b"\\n", b"\\\\n")',
     "new": 'return super().STRING(v).replace(b"\\n", b"\\\\n").replace(b"\\r", b"\\\\r")'},
    # ------------------------------------------------------------------ strengthening round
    {"name": "R1 per-block variable list memoised by block name", "expect": "C12.R1",
     "edits": [{"file": MSGSER, "old": "        self._message_cls = message_cls\n",
                "new": "        self._message_cls = message_cls\n        self._llsd_vars = {}\n"},
               {"file": MSGSER, "old": "                for tmpl_var in tmpl_block.variables:\n"
                                       "                    if tmpl_var.type in LLSDDataPacker.SPECS:\n"
                                       "                        yield block, tmpl_var\n",
                "new": "                for tmpl_var in self._llsd_vars_of(tmpl_block):\n"
                       "                    yield block, tmpl_var\n"},
               {"file": MSGSER, "old": "    def can_handle(self,",
                "new": "    def _llsd_vars_of(self, tb):\n"
                       "        if tb.name not in self._llsd_vars:\n"
                       "            self._llsd_vars[tb.name] = [v for v in tb.variables if v.type in LLSDDataPacker.SPECS]\n"
                       "        found = self._llsd_vars[tb.name]\n"
                       "        return found\n\n    def can_handle(self,"}]},
    {"name": "P1 per-block variable list memoised by the block object", "expect": "silent",
     "edits": [{"file": MSGSER, "old": "        self._message_cls = message_cls\n",
                "new": "        self._message_cls = message_cls\n        self._llsd_vars = {}\n"},
               {"file": MSGSER, "old": "                for tmpl_var in tmpl_block.variables:\n"
                                       "                    if tmpl_var.type in LLSDDataPacker.SPECS:\n"
                                       "                        yield block, tmpl_var\n",
                "new": "                for tmpl_var in self._llsd_vars_of(tmpl_block):\n"
                       "                    yield block, tmpl_var\n"},
               {"file": MSGSER, "old": "    def can_handle(self,",
                "new": "    def _llsd_vars_of(self, tb):\n"
                       "        if tb not in self._llsd_vars:\n"
                       "            self._llsd_vars[tb] = [v for v in tb.variables if v.type in LLSDDataPacker.SPECS]\n"
                       "        found = self._llsd_vars[tb]\n"
                       "        return found\n\n    def can_handle(self,"}]},
    {"name": "P1 filter extracted into an uncached helper", "expect": "silent",
     "edits": [{"file": MSGSER, "old": "                for tmpl_var in tmpl_block.variables:\n"
                                       "                    if tmpl_var.type in LLSDDataPacker.SPECS:\n"
                                       "                        yield block, tmpl_var\n",
                "new": "                for tmpl_var in self._llsd_vars_of(tmpl_block):\n"
                       "                    yield block, tmpl_var\n"},
               {"file": MSGSER, "old": "    def can_handle(self,",
                "new": "    def _llsd_vars_of(self, tb):\n"
                       "        return tuple(v for v in tb.variables if v.type in LLSDDataPacker.SPECS)\n\n"
                       "    def can_handle(self,"}]},
    {"name": "P1 guard clause in _yield_vars", "file": MSGSER, "expect": "silent",
     "old": "                    if tmpl_var.type in LLSDDataPacker.SPECS:\n                        yield block, tmpl_var\n",
     "new": "                    if tmpl_var.type not in LLSDDataPacker.SPECS:\n                        continue\n"
            "                    yield block, tmpl_var\n"},
    {"name": "R1 _yield_vars yields every variable", "file": MSGSER, "expect": "C12.R1",
     "old": "                    if tmpl_var.type in LLSDDataPacker.SPECS:\n                        yield block, tmpl_var\n",
     "new": "                    yield block, tmpl_var\n"},
    {"name": "R2 key header built from the unencoded key", "file": LLSD, "expect": "C12.R2",
     "old": "            if isinstance(key, str):\n                key = key.encode(\"utf8\")\n"
            "            map_builder.append(b'k' + struct.pack('!i', len(key)) + key)\n",
     "new": "            head = b'k' + struct.pack('!i', len(key))\n"
            "            raw_key = key.encode(\"utf8\") if isinstance(key, str) else key\n"
            "            map_builder.append(head + raw_key)\n"},
    {"name": "P2 key header bound to a local after encoding", "file": LLSD, "expect": "silent",
     "old": "            map_builder.append(b'k' + struct.pack('!i', len(key)) + key)\n",
     "new": "            head = b'k' + struct.pack('!i', len(key))\n            map_builder.append(head + key)\n"},
    {"name": "P2 array and map writers as module-level helpers", "expect": "silent",
     "edits": [{"file": LLSD, "old": "def _format_binary_recurse(something) -> bytes:\n",
                "new": "def _binary_map(mapping) -> bytes:\n"
                       "    out = [b'{' + struct.pack('!i', len(mapping))]\n"
                       "    for key, value in mapping.items():\n"
                       "        if isinstance(key, str):\n            key = key.encode(\"utf8\")\n"
                       "        out.append(b'k' + struct.pack('!i', len(key)) + key)\n"
                       "        out.append(_format_binary_recurse(value))\n"
                       "    out.append(b'}')\n    return b''.join(out)\n\n\n"
                       "def _format_binary_recurse(something) -> bytes:\n"},
               {"file": LLSD,
                "old": "        map_builder = [b'{' + struct.pack('!i', len(something))]\n"
                       "        for key, value in something.items():\n"
                       "            if isinstance(key, str):\n                key = key.encode(\"utf8\")\n"
                       "            map_builder.append(b'k' + struct.pack('!i', len(key)) + key)\n"
                       "            map_builder.append(_format_binary_recurse(value))\n"
                       "        map_builder.append(b'}')\n        return b''.join(map_builder)\n",
                "new": "        return _binary_map(something)\n"}]},
    {"name": "R4 STRING override has an unescaped early return", "file": LLSD, "expect": "C12.R4",
     "old": "    def STRING(self, v):\n",
     "new": "    def STRING(self, v):\n        if not v:\n            return super().STRING(v)\n"},
    # ------------------------------------------------------------------ round 3
    {"name": "R5 header located anywhere with find()", "file": LLSD, "expect": "C12.R5",
     "old": "    if any(data.startswith(x) for x in _BINARY_HEADERS):\n        data = data.split(b'\\n', 1)[1]\n    return HippoLLSDBinaryParser",
     "new": "    for hdr in _BINARY_HEADERS:\n        at = data.find(hdr + b'\\n')\n        if at >= 0:\n"
            "            data = data[at + len(hdr) + 1:]\n            break\n    return HippoLLSDBinaryParser"},
    {"name": "R5 first line dropped whenever it looks like a processing instruction anywhere", "file": LLSD, "expect": "C12.R5",
     "old": "    if any(data.startswith(x) for x in _BINARY_HEADERS):\n        data = data.split(b'\\n', 1)[1]\n    return HippoLLSDBinaryParser",
     "new": "    if any(x in data for x in _BINARY_HEADERS):\n        data = data.split(b'\\n', 1)[1]\n    return HippoLLSDBinaryParser"},
    {"name": "P5 header test through a module-level predicate", "expect": "silent",
     "edits": [{"file": LLSD, "old": "def parse_binary(data: bytes):\n    if any(data.startswith(x) for x in _BINARY_HEADERS):\n",
                "new": "def _starts_with_header(buf) -> bool:\n    return any(buf.startswith(h) for h in _BINARY_HEADERS)\n\n\n"
                       "def parse_binary(data: bytes):\n    if _starts_with_header(data):\n"}]},
    {"name": "P5 header stripped by slicing after a per-header startswith", "file": LLSD, "expect": "silent",
     "old": "    if any(data.startswith(x) for x in _BINARY_HEADERS):\n        data = data.split(b'\\n', 1)[1]\n    return HippoLLSDBinaryParser",
     "new": "    for hdr in _BINARY_HEADERS:\n        if data.startswith(hdr):\n"
            "            data = data[data.index(b'\\n') + 1:]\n            break\n    return HippoLLSDBinaryParser"},
    {"name": "P2 dispatch overrides installed from a table of (token, handler) rows", "expect": "silent",
     "edits": [{"file": LLSD,
                "old": "        self._dispatch[ord('u')] = lambda: UUID(bytes=self._getc(16))\n        self._dispatch[ord('d')] = self._parse_date\n",
                "new": "        for tok, fn in ((b'u', self._read_uuid), (b'd', self._parse_date)):\n            self._dispatch[ord(tok)] = fn\n\n"
                       "    def _read_uuid(self):\n        return UUID(bytes=self._getc(16))\n"}]},
    {"name": "R2 table-driven override whose UUID method consumes 15 bytes", "expect": "C12.R2",
     "edits": [{"file": LLSD,
                "old": "        self._dispatch[ord('u')] = lambda: UUID(bytes=self._getc(16))\n        self._dispatch[ord('d')] = self._parse_date\n",
                "new": "        for tok, fn in ((b'u', self._read_uuid), (b'd', self._parse_date)):\n            self._dispatch[ord(tok)] = fn\n\n"
                       "    def _read_uuid(self):\n        return UUID(bytes=self._getc(15))\n"}]},
    {"name": "P1 LLSD table assembled from two module-level dicts", "expect": "silent",
     "edits": [{"file": PACK, "old": "@_unpack_specs\nclass LLSDDataPacker(TemplateDataPacker):",
                "new": "_LLSD_INT_ROWS = {\n    MsgType.MVT_U32: _make_struct_spec('!I'),\n    MsgType.MVT_U64: _make_struct_spec('!Q'),\n"
                       "    MsgType.MVT_S64: _make_struct_spec('!q'),\n}\n\n\n@_unpack_specs\nclass LLSDDataPacker(TemplateDataPacker):"},
               {"file": PACK, "old": "        MsgType.MVT_U32: _make_struct_spec('!I'),\n        MsgType.MVT_U64: _make_struct_spec('!Q'),\n"
                                     "        MsgType.MVT_S64: _make_struct_spec('!q'),\n        # These are arrays",
                "new": "        **_LLSD_INT_ROWS,\n        # These are arrays"}]},
    {"name": "R1 merged module-level rows carry U64 as signed", "expect": "C12.R1",
     "edits": [{"file": PACK, "old": "@_unpack_specs\nclass LLSDDataPacker(TemplateDataPacker):",
                "new": "_LLSD_INT_ROWS = {\n    MsgType.MVT_U32: _make_struct_spec('!I'),\n    MsgType.MVT_U64: _make_struct_spec('!q'),\n"
                       "    MsgType.MVT_S64: _make_struct_spec('!q'),\n}\n\n\n@_unpack_specs\nclass LLSDDataPacker(TemplateDataPacker):"},
               {"file": PACK, "old": "        MsgType.MVT_U32: _make_struct_spec('!I'),\n        MsgType.MVT_U64: _make_struct_spec('!Q'),\n"
                                     "        MsgType.MVT_S64: _make_struct_spec('!q'),\n        # These are arrays",
                "new": "        **_LLSD_INT_ROWS,\n        # These are arrays"}]},
    {"name": "R1 module-level packer bound with partial calls .data() on the tuple (D10 shape)", "expect": "C12.R1",
     "edits": [{"file": PACK, "old": "import socket\n", "new": "import functools\nimport socket\n"},
               {"file": PACK, "old": "def _make_llsd_tuplecoord_spec(",
                "new": "def _llsd_leading(count, x):\n    if isinstance(x, TupleCoord):\n        x = x.data()\n"
                       "    return list(x.data(count))\n\n\ndef _make_llsd_tuplecoord_spec("},
               {"file": PACK, "old": "    return lambda x: typ(*x), _packer\n",
                "new": "    if needed_elems is not None:\n        _packer = functools.partial(_llsd_leading, needed_elems)\n"
                       "    return lambda x: typ(*x), _packer\n"}]},
    # ------------------------------------------------------------------ round 4
    {"name": "R1 LLSD packer rescales the components it hands over", "file": PACK, "expect": "C12.R1",
     "old": "            return list(x.data(needed_elems)[:needed_elems])\n",
     "new": "            return [c * 0.5 for c in x.data(needed_elems)[:needed_elems]]\n"},
    {"name": "P1 LLSD packer copies the components in a comprehension", "file": PACK, "expect": "silent",
     "old": "            return list(x.data(needed_elems)[:needed_elems])\n",
     "new": "            return [c for c in x.data(needed_elems)[:needed_elems]]\n"},
    {"name": "R1 conversion loop in a helper, deserialize hands it a shallow copy", "expect": "C12.R1",
     "edits": [{"file": MSGSER, "old": "            llsd_val = copy.deepcopy(llsd_val)\n", "new": "            llsd_val = dict(llsd_val)\n"},
               {"file": MSGSER, "old": "        for block, tmpl_var in self._yield_vars(llsd_val):\n            val = block[tmpl_var.name]\n            if tmpl_var.type in _BINARY_PACKED and not isinstance(val, bytes):\n                # Only the <binary> form needs unpacking. Other implementations (OpenSim) write\n                # the values that fit as plain LLSD integers / strings, those are usable as-is.\n                continue\n            block[tmpl_var.name] = LLSDDataPacker.unpack(val, tmpl_var.type)\n", "new": "        self._apply(llsd_val, LLSDDataPacker.unpack, keep_plain=True)\n"},
               {"file": MSGSER, "old": "    def can_handle(self,", "new": "    def _apply(self, tree, conv, keep_plain=False):\n        for blk, tv in self._yield_vars(tree):\n            if keep_plain and tv.type in _BINARY_PACKED and not isinstance(blk[tv.name], bytes):\n                continue\n            blk[tv.name] = conv(blk[tv.name], tv.type)\n\n    def can_handle(self,"}]},
    {"name": "P1 conversion loop in a helper handed the converter", "expect": "silent",
     "edits": [{"file": MSGSER, "old": "        for block, tmpl_var in self._yield_vars(llsd_val):\n            val = block[tmpl_var.name]\n            if tmpl_var.type in _BINARY_PACKED and not isinstance(val, bytes):\n                # Only the <binary> form needs unpacking. Other implementations (OpenSim) write\n                # the values that fit as plain LLSD integers / strings, those are usable as-is.\n                continue\n            block[tmpl_var.name] = LLSDDataPacker.unpack(val, tmpl_var.type)\n", "new": "        self._apply(llsd_val, LLSDDataPacker.unpack, keep_plain=True)\n"},
               {"file": MSGSER, "old": "    def can_handle(self,", "new": "    def _apply(self, tree, conv, keep_plain=False):\n        for blk, tv in self._yield_vars(tree):\n            if keep_plain and tv.type in _BINARY_PACKED and not isinstance(blk[tv.name], bytes):\n                continue\n            blk[tv.name] = conv(blk[tv.name], tv.type)\n\n    def can_handle(self,"}]},
    {"name": "R1 helper is handed the wrong converter", "expect": "C12.R1",
     "edits": [{"file": MSGSER, "old": "        for block, tmpl_var in self._yield_vars(llsd_val):\n            val = block[tmpl_var.name]\n            if tmpl_var.type in _BINARY_PACKED and not isinstance(val, bytes):\n                # Only the <binary> form needs unpacking. Other implementations (OpenSim) write\n                # the values that fit as plain LLSD integers / strings, those are usable as-is.\n                continue\n            block[tmpl_var.name] = LLSDDataPacker.unpack(val, tmpl_var.type)\n", "new": "        self._apply(llsd_val, LLSDDataPacker.pack, keep_plain=True)\n"},
               {"file": MSGSER, "old": "    def can_handle(self,", "new": "    def _apply(self, tree, conv, keep_plain=False):\n        for blk, tv in self._yield_vars(tree):\n            if keep_plain and tv.type in _BINARY_PACKED and not isinstance(blk[tv.name], bytes):\n                continue\n            blk[tv.name] = conv(blk[tv.name], tv.type)\n\n    def can_handle(self,"}]},
    {"name": "P1 IP row as a two-field NamedTuple in both tables", "expect": "silent",
     "edits": [{"file": PACK, "old": "def _pack_string(pack_string):",
                "new": "class Pair(NamedTuple):\n    unpacker: Callable\n    packer: Callable\n\n\ndef _pack_string(pack_string):"},
               {"file": PACK, "old": "        MsgType.MVT_IP_ADDR: (socket.inet_ntoa, socket.inet_aton),\n        MsgType.MVT_IP_PORT",
                "new": "        MsgType.MVT_IP_ADDR: Pair(unpacker=socket.inet_ntoa, packer=socket.inet_aton),\n        MsgType.MVT_IP_PORT"},
               {"file": PACK, "old": "        MsgType.MVT_IP_ADDR: (socket.inet_ntoa, socket.inet_aton),\n        # LLSD ints",
                "new": "        MsgType.MVT_IP_ADDR: Pair(socket.inet_ntoa, socket.inet_aton),\n        # LLSD ints"},
               {"file": PACK, "old": "    return lambda x: typ(*x), _packer\n", "new": "    return Pair(packer=_packer, unpacker=lambda x: typ(*x))\n"}]},
    {"name": "R2 buffered parser returns early for empty arrays", "file": SER, "expect": "C12.R2",
     "old": "        val = super()._parse_array()\n        # _parse_array() checks but doesn't skip the closing ']', do it ourselves.\n        self._getc(1)\n",
     "new": "        val = super()._parse_array()\n        if not val:\n            return val\n        self._getc(1)\n"},
    {"name": "R2 buffered parser no longer overrides _parse_array", "file": SER, "expect": "C12.R2",
     "old": "    def _parse_array(self):\n        val = super()._parse_array()\n"
            "        # _parse_array() checks but doesn't skip the closing ']', do it ourselves.\n        self._getc(1)\n        return val\n\n",
     "new": ""},
    {"name": "P2 buffered parser skips the token in a finally clause", "file": SER, "expect": "silent",
     "old": "        val = super()._parse_array()\n        # _parse_array() checks but doesn't skip the closing ']', do it ourselves.\n        self._getc(1)\n        return val\n",
     "new": "        val = super()._parse_array()\n        closing = self._getc()\n        if closing != b']':\n"
            "            self._error(\"invalid array close token\", -1)\n        return val\n"},
    {"name": "R5 sniffer trims both ends of the document", "file": LLSD, "expect": "C12.R5",
     "old": "        data = data.lstrip()\n", "new": "        data = data.lstrip().rstrip(b\"\\r\\n\")\n"},
    {"name": "R5 parse_binary drops a trailing newline", "file": LLSD, "expect": "C12.R5",
     "old": "    return HippoLLSDBinaryParser().parse(data)\n", "new": "    return HippoLLSDBinaryParser().parse(data.rstrip(b\"\\n\"))\n"},
    {"name": "P5 sniffer strips leading ASCII whitespace explicitly", "file": LLSD, "expect": "silent",
     "old": "        data = data.lstrip()\n", "new": "        data = data.lstrip(b\" \\t\\r\\n\")\n"},
    {"name": "R4 newline escaping helper escapes tabs instead", "expect": "C12.R4",
     "edits": [{"file": LLSD, "old": 'return super().STRING(v).replace(b"\\n", b"\\\\n")',
                "new": 'return self._esc(super().STRING(v))\n\n    @staticmethod\n    def _esc(raw):\n        return raw.replace(b"\\t", b"\\\\t")'}]},
    {"name": "P4 newline escaping through a static helper", "expect": "silent",
     "edits": [{"file": LLSD, "old": 'return super().STRING(v).replace(b"\\n", b"\\\\n")',
                "new": 'return self._esc(super().STRING(v))\n\n    @staticmethod\n    def _esc(raw):\n        return raw.replace(b"\\n", b"\\\\n")'}]},
    # ------------------------------------------------------------------ round 5
    {"name": "R1 LLSD table loses its U64 row", "file": PACK, "expect": "C12.R1",
     "old": "        MsgType.MVT_U64: _make_struct_spec('!Q'),\n        MsgType.MVT_S64: _make_struct_spec('!q'),\n        # These are arrays",
     "new": "        MsgType.MVT_S64: _make_struct_spec('!q'),\n        # These are arrays"},
    {"name": "R1 LLSD table loses its quaternion row", "file": PACK, "expect": "C12.R1",
     "old": "        MsgType.MVT_LLVector4: _make_llsd_tuplecoord_spec(Vector4),\n        MsgType.MVT_LLQuaternion: _make_llsd_tuplecoord_spec(Quaternion, needed_elems=3)\n",
     "new": "        MsgType.MVT_LLVector4: _make_llsd_tuplecoord_spec(Vector4),\n"},
    {"name": "R6 coordinate registration loop misses Vector2", "file": LLSD, "expect": "C12.R6",
     "old": "        self.type_map[Vector2] = self.TUPLECOORD\n        self.type_map[Vector3] = self.TUPLECOORD\n"
            "        self.type_map[Vector4] = self.TUPLECOORD\n        self.type_map[Quaternion] = self.TUPLECOORD\n",
     "new": "        for klass in [Quaternion, Vector4, Vector3]:\n            self.type_map[klass] = self.TUPLECOORD\n"},
    {"name": "R6 one registration line deleted", "file": LLSD, "expect": "C12.R6",
     "old": "        self.type_map[Vector4] = self.TUPLECOORD\n", "new": ""},
    {"name": "P6 coordinate classes registered from a class-level tuple", "expect": "silent",
     "edits": [{"file": LLSD, "old": "    UUID: callable\n    ARRAY: callable\n",
                "new": "    UUID: callable\n    ARRAY: callable\n    _COORDS = (Quaternion, Vector4, Vector3, Vector2)\n"},
               {"file": LLSD,
                "old": "        self.type_map[Vector2] = self.TUPLECOORD\n        self.type_map[Vector3] = self.TUPLECOORD\n"
                       "        self.type_map[Vector4] = self.TUPLECOORD\n        self.type_map[Quaternion] = self.TUPLECOORD\n",
                "new": "        for klass in self._COORDS:\n            self.type_map[klass] = self.TUPLECOORD\n"}]},
    # ------------------------------------------------------------------ round 6
    {"name": "R7 binary parser instance shared at module level", "expect": "C12.R7",
     "edits": [{"file": LLSD, "old": "def parse_binary(data: bytes):\n", "new": "_SHARED_PARSER = HippoLLSDBinaryParser()\n\n\ndef parse_binary(data: bytes):\n"},
               {"file": LLSD, "old": "    return HippoLLSDBinaryParser().parse(data)\n", "new": "    return _SHARED_PARSER.parse(data)\n"}]},
    {"name": "R7 buffered parser cached on the serializer class", "file": SER, "expect": "C12.R7",
     "old": "        parser = BufferedLLSDBinaryParser()\n        return parser.parse(reader)\n",
     "new": "        if getattr(cls, \"_parser\", None) is None:\n            cls._parser = BufferedLLSDBinaryParser()\n"
            "        return cls._parser.parse(reader)\n"},
    {"name": "P7 parser bound to a local before use", "file": LLSD, "expect": "silent",
     "old": "    return HippoLLSDBinaryParser().parse(data)\n", "new": "    parser = HippoLLSDBinaryParser()\n    return parser.parse(data)\n"},
    {"name": "R1 private copy taken only after the conversion loop", "expect": "C12.R1",
     "edits": [{"file": MSGSER, "old": "        else:\n            llsd_val = copy.deepcopy(llsd_val)\n", "new": ""},
               {"file": MSGSER, "old": "        return self._message_cls.from_dict(llsd_val)\n",
                "new": "        return self._message_cls.from_dict(copy.deepcopy(llsd_val))\n"}]},
    {"name": "R1 generator helper publishes its memo list before filling it", "expect": "C12.R1",
     "edits": [{"file": MSGSER, "old": "        self._message_cls = message_cls\n",
                "new": "        self._message_cls = message_cls\n        self._memo = {}\n"},
               {"file": MSGSER, "old": "                for tmpl_var in tmpl_block.variables:\n"
                                       "                    if tmpl_var.type in LLSDDataPacker.SPECS:\n"
                                       "                        yield block, tmpl_var\n",
                "new": "                for tmpl_var in self._packable(tmpl_block):\n                    yield block, tmpl_var\n"},
               {"file": MSGSER, "old": "    def can_handle(self,",
                "new": "    def _packable(self, tb):\n        if tb in self._memo:\n            yield from self._memo[tb]\n            return\n"
                       "        found = self._memo[tb] = []\n        for v in tb.variables:\n"
                       "            if v.type in LLSDDataPacker.SPECS:\n                found.append(v)\n                yield v\n\n"
                       "    def can_handle(self,"}]},
    {"name": "P1 generator helper without a memo", "expect": "silent",
     "edits": [{"file": MSGSER, "old": "                for tmpl_var in tmpl_block.variables:\n"
                                       "                    if tmpl_var.type in LLSDDataPacker.SPECS:\n"
                                       "                        yield block, tmpl_var\n",
                "new": "                for tmpl_var in self._packable(tmpl_block):\n                    yield block, tmpl_var\n"},
               {"file": MSGSER, "old": "    def can_handle(self,",
                "new": "    def _packable(self, tb):\n        for v in tb.variables:\n"
                       "            if v.type in LLSDDataPacker.SPECS:\n                yield v\n\n    def can_handle(self,"}]},
    # ------------------------------------------------------------------ round 7
    {"name": "R8 notation reals written with six decimals", "file": LLSD, "expect": "C12.R8",
     "old": "    def STRING(self, v):\n", "new": "    def REAL(self, v):\n        return b\"r%.6f\" % v\n\n    def STRING(self, v):\n"},
    {"name": "P8 notation reals written through repr", "file": LLSD, "expect": "silent",
     "old": "    def STRING(self, v):\n", "new": "    def REAL(self, v):\n        return b\"r\" + repr(v).encode(\"ascii\")\n\n    def STRING(self, v):\n"},
    {"name": "R2 wire form of strings memoised by value although the tag depends on the subclass", "file": LLSD, "expect": "C12.R2",
     "old": "def format_binary(val: typing.Any, with_header=True) -> bytes:\n",
     "new": "_STR_WIRE = {}\n\n\ndef _wire_str(text):\n    hit = _STR_WIRE.get(text)\n    if hit is None:\n"
            "        tag = b'l' if isinstance(text, uri) else b's'\n        enc = text.encode(\"utf8\")\n"
            "        hit = _STR_WIRE[text] = tag + struct.pack('!i', len(enc)) + enc\n    return hit\n\n\n"
            "def format_binary(val: typing.Any, with_header=True) -> bytes:\n"},
    {"name": "P2 length prefixes through a precompiled Struct constant", "expect": "silent",
     "edits": [{"file": LLSD, "old": "def format_binary(val: typing.Any, with_header=True) -> bytes:\n",
                "new": "_LEN = struct.Struct('!i')\n\n\ndef format_binary(val: typing.Any, with_header=True) -> bytes:\n"},
               {"file": LLSD, "old": "        return b'b' + struct.pack('!i', len(something)) + something\n",
                "new": "        return b'b' + _LEN.pack(len(something)) + something\n"}]},
    {"name": "R2 precompiled length constant is 16 bit", "expect": "C12.R2",
     "edits": [{"file": LLSD, "old": "def format_binary(val: typing.Any, with_header=True) -> bytes:\n",
                "new": "_LEN = struct.Struct('!H')\n\n\ndef format_binary(val: typing.Any, with_header=True) -> bytes:\n"},
               {"file": LLSD, "old": "        return b'b' + struct.pack('!i', len(something)) + something\n",
                "new": "        return b'b' + _LEN.pack(len(something)) + something\n"}]},
    {"name": "P1 converted slot addressed through a local", "file": MSGSER, "expect": "silent",
     "old": "            block[tmpl_var.name] = LLSDDataPacker.unpack(val, tmpl_var.type)\n",
     "new": "            slot = tmpl_var.name\n            block[slot] = LLSDDataPacker.unpack(block[slot], tmpl_var.type)\n"},
    # ------------------------------------------------------------------ round 8
    {"name": "R7 third-party notation parser shared at module level", "expect": "C12.R7",
     "edits": [{"file": LLSD, "old": "def parse_notation(data: bytes):\n    return base_llsd.parse_notation(data)\n",
                "new": "_NOTATION = base_llsd.serde_notation.LLSDNotationParser()\n\n\ndef parse_notation(data: bytes):\n    return _NOTATION.parse(data)\n"}]},
    {"name": "P7 third-party notation parser built per call", "file": LLSD, "expect": "silent",
     "old": "def parse_notation(data: bytes):\n    return base_llsd.parse_notation(data)\n",
     "new": "def parse_notation(data: bytes):\n    return base_llsd.serde_notation.LLSDNotationParser().parse(data)\n"},
    {"name": "R6 XML formatters collapse every str subclass onto str", "expect": "C12.R6",
     "edits": [{"file": LLSD, "old": "class HippoLLSDXMLFormatter(base_llsd.serde_xml.LLSDXMLFormatter, HippoLLSDBaseFormatter):\n",
                "new": "class _Widen:\n    def typeof(self, value):\n        for base in (bool, int, float, str, bytes):\n"
                       "            if isinstance(value, base):\n                return base\n        return type(value)\n\n\n"
                       "class HippoLLSDXMLFormatter(_Widen, base_llsd.serde_xml.LLSDXMLFormatter, HippoLLSDBaseFormatter):\n"}]},
    {"name": "P6 XML formatters widen subclasses but list uri before str", "expect": "silent",
     "edits": [{"file": LLSD, "old": "class HippoLLSDXMLFormatter(base_llsd.serde_xml.LLSDXMLFormatter, HippoLLSDBaseFormatter):\n",
                "new": "class _Widen:\n    def typeof(self, value):\n        for base in (bool, int, float, uri, str, bytes):\n"
                       "            if isinstance(value, base):\n                return base\n        return type(value)\n\n\n"
                       "class HippoLLSDXMLFormatter(_Widen, base_llsd.serde_xml.LLSDXMLFormatter, HippoLLSDBaseFormatter):\n"}]},
    {"name": "P1 IP pair named by a module constant in both tables", "expect": "silent",
     "edits": [{"file": PACK, "old": "def _unpack_specs(cls):\n",
                "new": "_IP_PAIR = (socket.inet_ntoa, socket.inet_aton)\n\n\ndef _unpack_specs(cls):\n"},
               {"file": PACK, "old": "        MsgType.MVT_IP_ADDR: (socket.inet_ntoa, socket.inet_aton),\n        MsgType.MVT_IP_PORT",
                "new": "        MsgType.MVT_IP_ADDR: _IP_PAIR,\n        MsgType.MVT_IP_PORT"},
               {"file": PACK, "old": "        MsgType.MVT_IP_ADDR: (socket.inet_ntoa, socket.inet_aton),\n        # LLSD ints",
                "new": "        MsgType.MVT_IP_ADDR: _IP_PAIR,\n        # LLSD ints"}]},
    {"name": "R9 binary dates tz-aware again (D47 reverted)", "file": LLSD, "expect": "C12.R9",
     "old": "return datetime.datetime.fromtimestamp(seconds, tz=datetime.timezone.utc).replace(tzinfo=None)",
     "new": "return datetime.datetime.fromtimestamp(seconds, tz=datetime.timezone.utc)"},
    {"name": "R9 binary dates re-labelled as UTC after the naive conversion", "file": LLSD, "expect": "C12.R9",
     "old": "return datetime.datetime.fromtimestamp(seconds, tz=datetime.timezone.utc).replace(tzinfo=None)",
     "new": "return datetime.datetime.utcfromtimestamp(seconds).replace(tzinfo=datetime.timezone.utc)"},
    {"name": "P9 binary dates through utcfromtimestamp", "file": LLSD, "expect": "silent",
     "old": "return datetime.datetime.fromtimestamp(seconds, tz=datetime.timezone.utc).replace(tzinfo=None)",
     "new": "return datetime.datetime.utcfromtimestamp(seconds)"},
    {"name": "P9 naive UTC built from the epoch plus a timedelta", "file": LLSD, "expect": "silent",
     "old": "return datetime.datetime.fromtimestamp(seconds, tz=datetime.timezone.utc).replace(tzinfo=None)",
     "new": "return datetime.datetime(1970, 1, 1) + datetime.timedelta(seconds=seconds)"},
    # ------------------------------------------------------------------ audit round (anchored on the FIXED text)
    {"name": "R10 carriage-return escaping removed from the XML formatter (fix reverted)", "file": LLSD, "expect": "C12.R10",
     "old": "        # XML parsers normalize a literal CR (or CRLF) to LF, only a character reference survives\n"
            "        return super().xml_esc(v).replace(b\"\\r\", b\"&#13;\")\n",
     "new": "        return super().xml_esc(v)\n"},
    {"name": "R10 pretty XML formatter escapes line feeds instead", "file": LLSD, "expect": "C12.R10",
     "old": "        # See HippoLLSDXMLFormatter.xml_esc()\n        return super().xml_esc(v).replace(b\"\\r\", b\"&#13;\")\n",
     "new": "        # See HippoLLSDXMLFormatter.xml_esc()\n        return super().xml_esc(v).replace(b\"\\n\", b\"&#10;\")\n"},
    {"name": "P10 carriage return written as a hexadecimal character reference", "file": LLSD, "expect": "silent",
     "old": "        # XML parsers normalize a literal CR (or CRLF) to LF, only a character reference survives\n"
            "        return super().xml_esc(v).replace(b\"\\r\", b\"&#13;\")\n",
     "new": "        return super().xml_esc(v).replace(b\"\\r\", b\"&#xD;\")\n"},
    {"name": "R6 JankStringyBytes no longer registered as binary (fix reverted)", "file": LLSD, "expect": "C12.R6",
     "old": "        self.type_map[JankStringyBytes] = self.BINARY\n", "new": ""},
    {"name": "R6 RawBytes registered with the string handler", "file": LLSD, "expect": "C12.R6",
     "old": "        self.type_map[RawBytes] = self.BINARY\n", "new": "        self.type_map[RawBytes] = self.STRING\n"},
    {"name": "P6 bytes subclasses registered in a loop", "file": LLSD, "expect": "silent",
     "old": "        self.type_map[JankStringyBytes] = self.BINARY\n        self.type_map[RawBytes] = self.BINARY\n",
     "new": "        for bytes_cls in (JankStringyBytes, RawBytes):\n            self.type_map[bytes_cls] = self.BINARY\n"},
    {"name": "R9 aware datetimes no longer normalised by the formatters (fix reverted)", "file": LLSD, "expect": "C12.R9",
     "old": "        self.type_map[datetime.datetime] = self.DATETIME\n", "new": ""},
    {"name": "R9 DATETIME handler forgets to strip the tzinfo", "file": LLSD, "expect": "C12.R9",
     "old": "            v = v.astimezone(datetime.timezone.utc).replace(tzinfo=None)\n",
     "new": "            v = v.astimezone(datetime.timezone.utc)\n"},
    {"name": "P9 DATETIME handler normalises through utctimetuple", "file": LLSD, "expect": "silent",
     "old": "            v = v.astimezone(datetime.timezone.utc).replace(tzinfo=None)\n",
     "new": "            v = datetime.datetime(*v.utctimetuple()[:6], v.microsecond)\n"},
    # ------------------------------------------------------------------ audit round 2 (anchored on the FIXED text)
    {"name": "R10 pretty formatter no longer escapes map keys (fix reverted)", "file": LLSD, "expect": "C12.R10",
     "old": "    def _elt(self, name, contents=None):\n        # Unlike MAP(), PRETTY_MAP() hands over its keys as unescaped strs\n"
            "        if name == b'key' and isinstance(contents, str):\n            contents = self.xml_esc(contents)\n"
            "        return super()._elt(name, contents)\n",
     "new": ""},
    {"name": "R10 pretty formatter escapes the wrong element", "file": LLSD, "expect": "C12.R10",
     "old": "        if name == b'key' and isinstance(contents, str):\n", "new": "        if name == b'string' and isinstance(contents, str):\n"},
    {"name": "P10 key escaping with the type test first", "file": LLSD, "expect": "silent",
     "old": "        if name == b'key' and isinstance(contents, str):\n", "new": "        if isinstance(contents, str) and name == b'key':\n"},
    # ------------------------------------------------------------------ refactor round 8 twins
    {"name": "P10 carriage-return escaping in a shared mixin with module constants", "expect": "silent",
     "edits": [{"file": LLSD, "old": "class HippoLLSDXMLFormatter(base_llsd.serde_xml.LLSDXMLFormatter, HippoLLSDBaseFormatter):\n",
                "new": "_RAW_CR = b\"\\r\"\n_CR_REF = b\"&#13;\"\n\n\nclass _EscapeCR:\n    def xml_esc(self, v):\n"
                       "        out = super().xml_esc(v)\n        return out.replace(_RAW_CR, _CR_REF)\n\n\n"
                       "class HippoLLSDXMLFormatter(_EscapeCR, base_llsd.serde_xml.LLSDXMLFormatter, HippoLLSDBaseFormatter):\n"},
               {"file": LLSD, "old": "    def xml_esc(self, v):\n        # XML parsers normalize a literal CR (or CRLF) to LF, only a character reference survives\n"
                                     "        return super().xml_esc(v).replace(b\"\\r\", b\"&#13;\")\n", "new": ""}]},
    {"name": "P5 header stripped by a helper that returns the document or its tail", "expect": "silent",
     "edits": [{"file": LLSD, "old": "def parse_binary(data: bytes):\n    if any(data.startswith(x) for x in _BINARY_HEADERS):\n        data = data.split(b'\\n', 1)[1]\n",
                "new": "def _without_header(doc: bytes) -> bytes:\n    if any(doc.startswith(h) for h in _BINARY_HEADERS):\n"
                       "        return doc.split(b'\\n', 1)[1]\n    return doc\n\n\ndef parse_binary(data: bytes):\n    data = _without_header(data)\n"}]},
    {"name": "R5 header-stripping helper cuts at the first newline unconditionally", "expect": "C12.R5",
     "edits": [{"file": LLSD, "old": "def parse_binary(data: bytes):\n    if any(data.startswith(x) for x in _BINARY_HEADERS):\n        data = data.split(b'\\n', 1)[1]\n",
                "new": "def _without_header(doc: bytes) -> bytes:\n    if b'\\n' in doc:\n"
                       "        return doc.split(b'\\n', 1)[1]\n    return doc\n\n\ndef parse_binary(data: bytes):\n    data = _without_header(data)\n"}]},
    # ------------------------------------------------------------------ round 9
    {"name": "R1 to_dict hands out the block's own vars (serialize converts them in place)", "file": MSG, "expect": "C12.R1",
     "old": '                new_vars = {}\n                for var_name, val in block.items():\n                    new_vars[var_name] = val\n                dict_blocks.append(new_vars)\n',
     "new": "                dict_blocks.append(block.vars)\n"},
    {"name": "R1 to_dict hands out the block's vars through a local name", "file": MSG, "expect": "C12.R1",
     "old": '                new_vars = {}\n                for var_name, val in block.items():\n                    new_vars[var_name] = val\n                dict_blocks.append(new_vars)\n',
     "new": "                new_vars = block.vars\n                dict_blocks.append(new_vars)\n"},
    {"name": "P1 to_dict copies each block with dict() in a comprehension", "file": MSG, "expect": "silent",
     "old": "            dict_blocks = base_repr['body'].setdefault(block_type, [])\n            for block in self.blocks[block_type]:\n" + '                new_vars = {}\n                for var_name, val in block.items():\n                    new_vars[var_name] = val\n                dict_blocks.append(new_vars)\n',
     "new": "            base_repr['body'][block_type] = [dict(block.items()) for block in self.blocks[block_type]]\n"},
    {"name": "P1 to_dict copies each block's vars with .copy()", "file": MSG, "expect": "silent",
     "old": '                new_vars = {}\n                for var_name, val in block.items():\n                    new_vars[var_name] = val\n                dict_blocks.append(new_vars)\n',
     "new": "                dict_blocks.append(block.vars.copy())\n"},
    {"name": "P10 carriage-return escaping through a module-level helper", "expect": "silent",
     "edits": [{"file": LLSD, "old": "class HippoLLSDXMLFormatter(base_llsd.serde_xml.LLSDXMLFormatter, HippoLLSDBaseFormatter):\n",
                "new": "def _escape_cr(escaped: bytes) -> bytes:\n    return escaped.replace(b\"\\r\", b\"&#13;\")\n\n\n"
                       "class HippoLLSDXMLFormatter(base_llsd.serde_xml.LLSDXMLFormatter, HippoLLSDBaseFormatter):\n"},
               {"file": LLSD, "all": True, "old": "        return super().xml_esc(v).replace(b\"\\r\", b\"&#13;\")\n",
                "new": "        return _escape_cr(super().xml_esc(v))\n"}]},
    {"name": "R10 module-level helper replaces the carriage return with a newline", "expect": "C12.R10",
     "edits": [{"file": LLSD, "old": "class HippoLLSDXMLFormatter(base_llsd.serde_xml.LLSDXMLFormatter, HippoLLSDBaseFormatter):\n",
                "new": "def _escape_cr(escaped: bytes) -> bytes:\n    return escaped.replace(b\"\\r\", b\"\\n\")\n\n\n"
                       "class HippoLLSDXMLFormatter(base_llsd.serde_xml.LLSDXMLFormatter, HippoLLSDBaseFormatter):\n"},
               {"file": LLSD, "all": True, "old": "        return super().xml_esc(v).replace(b\"\\r\", b\"&#13;\")\n",
                "new": "        return _escape_cr(super().xml_esc(v))\n"}]},
    {"name": "P1 deserialize converts through a static wrapper that skips plain values", "expect": "silent",
     "edits": [{"file": MSGSER, "old": '    def can_handle(self, msg_name: str):\n', "new": '    @staticmethod\n    def _unpack_var(val, var_type):\n        if var_type in _BINARY_PACKED and not isinstance(val, bytes):\n            return val\n        return LLSDDataPacker.unpack(val, var_type)\n\n    def can_handle(self, msg_name: str):\n'},
               {"file": MSGSER, "old": '        for block, tmpl_var in self._yield_vars(llsd_val):\n            val = block[tmpl_var.name]\n            if tmpl_var.type in _BINARY_PACKED and not isinstance(val, bytes):\n                # Only the <binary> form needs unpacking. Other implementations (OpenSim) write\n                # the values that fit as plain LLSD integers / strings, those are usable as-is.\n                continue\n            block[tmpl_var.name] = LLSDDataPacker.unpack(val, tmpl_var.type)\n', "new": '        for block, tmpl_var in self._yield_vars(llsd_val):\n            val = block[tmpl_var.name]\n            block[tmpl_var.name] = self._unpack_var(val, tmpl_var.type)\n'}]},
    {"name": "R1 converter wrapper unpacks with a fixed type", "expect": "C12.R1",
     "edits": [{"file": MSGSER, "old": '    def can_handle(self, msg_name: str):\n', "new": '    @staticmethod\n    def _unpack_var(val, var_type):\n        if var_type in _BINARY_PACKED and not isinstance(val, bytes):\n            return val\n        return LLSDDataPacker.unpack(val, MsgType.MVT_VARIABLE)\n\n    def can_handle(self, msg_name: str):\n'},
               {"file": MSGSER, "old": '        for block, tmpl_var in self._yield_vars(llsd_val):\n            val = block[tmpl_var.name]\n            if tmpl_var.type in _BINARY_PACKED and not isinstance(val, bytes):\n                # Only the <binary> form needs unpacking. Other implementations (OpenSim) write\n                # the values that fit as plain LLSD integers / strings, those are usable as-is.\n                continue\n            block[tmpl_var.name] = LLSDDataPacker.unpack(val, tmpl_var.type)\n', "new": '        for block, tmpl_var in self._yield_vars(llsd_val):\n            val = block[tmpl_var.name]\n            block[tmpl_var.name] = self._unpack_var(val, tmpl_var.type)\n'}]},
    {"name": "P7 parser class named by a class attribute, built per call", "file": SER, "expect": "silent",
     "old": "    @classmethod\n    def deserialize(cls, reader: Reader, ctx):\n        parser = BufferedLLSDBinaryParser()\n",
     "new": "    PARSER_CLS = BufferedLLSDBinaryParser\n\n    @classmethod\n    def deserialize(cls, reader: Reader, ctx):\n        parser = cls.PARSER_CLS()\n"},
    {"name": "R7 parser class named by a class attribute, instance kept on the class", "file": SER, "expect": "C12.R7",
     "old": "    @classmethod\n    def deserialize(cls, reader: Reader, ctx):\n        parser = BufferedLLSDBinaryParser()\n",
     "new": "    PARSER_CLS = BufferedLLSDBinaryParser\n    _PARSER = None\n\n    @classmethod\n    def deserialize(cls, reader: Reader, ctx):\n"
            "        if cls._PARSER is None:\n            cls._PARSER = cls.PARSER_CLS()\n        parser = cls._PARSER\n"},
    # ------------------------------------------------------------------ documented limits
    {"name": "X quaternion packed with two components (count still accepted by the constructor)", "file": PACK, "expect": "miss",
     "old": "MsgType.MVT_LLQuaternion: _make_llsd_tuplecoord_spec(Quaternion, needed_elems=3)",
     "new": "MsgType.MVT_LLQuaternion: _make_llsd_tuplecoord_spec(Quaternion, needed_elems=2)"},
    {"name": "X microseconds dropped from dates (value level)", "file": LLSD, "expect": "miss",
     "old": "return b'd' + struct.pack('<d', something.timestamp())", "new": "return b'd' + struct.pack('<d', int(something.timestamp()))"},
]
