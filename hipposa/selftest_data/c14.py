"""Self-test corpus for C14: text edits on a scratch overlay (never on /repo)."""
OM = "hippolyzer/lib/client/object_manager.py"
EV = "hippolyzer/lib/base/events.py"
POM = "hippolyzer/lib/proxy/object_manager.py"
LLUDP = "hippolyzer/lib/proxy/lludp_proxy.py"
TMPL = "hippolyzer/lib/base/templates.py"
VOC = "hippolyzer/lib/proxy/vocache.py"

_UNPARENT_LOOP = (
    "        former_child_ids = obj.ChildIDs[:]\n"
    "        for child_id in former_child_ids:\n"
    "            child_obj = self.localid_lookup.get(child_id)\n"
    "            assert child_obj is not None\n"
    "            self._unparent_object(child_obj, child_obj.ParentID)\n"
    "\n"
    "        # Place any remaining unkilled children in the orphanage\n"
    "        for child_id in former_child_ids:\n"
    "            self._track_orphan(child_id, obj.LocalID)\n"
)
_ADOPT_LOOP = (
    "        for orphan_local in self.collect_orphans(obj.LocalID):\n"
    "            child_obj = self.localid_lookup.get(orphan_local)\n"
    "            # Shouldn't be any dead children in the orphanage\n"
    "            assert child_obj is not None\n"
    "            self._parent_object(child_obj)\n"
)
_CANCEL_LOOP = (
    "        for fut_key, futs in self._object_futures.items():\n"
    "            if fut_key[0] == local_id:\n"
    "                for fut in futs:\n"
    "                    fut.cancel()\n"
)

_D37_FIXED = (
    "                # May be a new version of an object we're already tracking\n"
    "                obj = self.lookup_fullid(cached_obj[\"FullID\"])\n"
    "                if obj is not None:\n"
    "                    self._update_existing_object(obj, cached_obj, ObjectUpdateType.UPDATE, msg)\n"
    "                else:\n"
    "                    self._track_new_object(region_state, Object(**cached_obj), msg)\n"
)

STATE = "hippolyzer/lib/client/state.py"
_A1_FIXED = (
    "                if not obj:\n"
    "                    # The orphan list was taken out of the orphanage above. The surviving\n"
    "                    # avatar still names this local ID as its parent, so it stays an orphan.\n"
    "                    region_state._track_orphan(child_id, local_id)\n"
    "                continue\n"
    "            self._kill_object_by_local_id(region_state, child_id)\n"
)
_A2_FIXED = (
    "        fallback = None\n"
    "        for region in self.regions:\n"
    "            if region.handle != handle:\n"
    "                continue\n"
    "            # A dead region may linger under the same handle as the region that replaced it\n"
    "            # (region restart, sim moved to another address.) Prefer the one that's alive.\n"
    "            if region.is_alive:\n"
    "                return region\n"
    "            if fallback is None:\n"
    "                fallback = region\n"
    "        return fallback\n"
)
_A3_FIXED = (
    "        if new_region_state is not None:\n"
    "            if actually_updated_props:\n"
    "                self._run_object_update_hooks(obj, actually_updated_props, update_type, msg)\n"
    "            else:\n"
    "                # Nothing changed, so there's nothing to tell the hooks about, but whoever\n"
    "                # requested this object still got their answer.\n"
    "                new_region_state.resolve_futures(obj, update_type)\n"
)
_A5_FIXED = (
    "        for handle, region_mgr in tuple(self._region_managers.items()):\n"
    "            # Tearing down the world tears down every region in it: clears the region's own\n"
    "            # indices and cancels its pending requests. Normally calls back into\n"
    "            # untrack_region_objects() itself, but only if the region still has its handle.\n"
    "            region_mgr.clear()\n"
    "            self.untrack_region_objects(handle)\n"
)

_A21_FIXED = (
    "        if old_region_state is not None and old_region_state.lookup_localid(old_local_id) is not obj:\n"
    "            old_region_state = None\n"
    "        region_changed = old_region_handle != new_region_handle or old_region_state is None\n"
)

VARIANTS = [
    # ---- R1 ownership
    {"name": "R1 localid_lookup written in _handle_object_update", "file": OM, "expect": "C14.R1",
     "old": '                LOG.warning(f"Got ObjectUpdate for unknown region {handle}: {object_data!r}")\n',
     "new": '                LOG.warning(f"Got ObjectUpdate for unknown region {handle}: {object_data!r}")\n'
            '            else:\n'
            '                region_state.localid_lookup.pop(object_data["LocalID"], None)\n'},
    {"name": "R1 orphanage cleared by the region manager", "file": OM, "expect": "C14.R1",
     "old": "        self.state.clear()\n        if self._region.handle is not None:\n",
     "new": "        self.state.clear()\n        self.state._orphans.clear()\n        if self._region.handle is not None:\n"},
    {"name": "R1 Children mutated through an alias in a handler", "file": OM, "expect": "C14.R1",
     "old": "            self._run_kill_object_hooks(obj)\n            child_ids = obj.ChildIDs\n",
     "new": "            self._run_kill_object_hooks(obj)\n            child_ids = obj.ChildIDs\n            child_ids.sort()\n"},
    {"name": "P R1/R2 full-id removal extracted into a helper called only by the kill path", "expect": "silent",
     "edits": [
         {"file": OM, "old": "            self._fullid_lookup.pop(obj.FullID, None)\n            if obj.PCode == PCode.AVATAR:\n"
                             "                self._avatar_objects.pop(obj.FullID, None)\n",
          "new": "            self._forget_full_id(obj)\n            if obj.PCode == PCode.AVATAR:\n"
                 "                self._avatar_objects.pop(obj.FullID, None)\n"},
         {"file": OM, "old": "    def _handle_object_update(self, msg: Message):\n",
          "new": "    def _forget_full_id(self, dead: Object):\n        self._fullid_lookup.pop(dead.FullID, None)\n\n"
                 "    def _handle_object_update(self, msg: Message):\n"},
     ]},
    # ---- R2 lock-step
    {"name": "R2 insert into Children only", "file": OM, "expect": "C14.R2",
     "old": "                parent.ChildIDs.insert(idx, obj.LocalID)\n", "new": ""},
    {"name": "R2 Children deleted at a different index", "file": OM, "expect": "C14.R2",
     "old": "                    del old_parent.Children[idx]\n", "new": "                    del old_parent.Children[idx - 1]\n"},
    {"name": "R2 kill path keeps the full-id entry", "file": OM, "expect": "C14.R2",
     "old": "            self._fullid_lookup.pop(obj.FullID, None)\n", "new": ""},
    {"name": "R2 new object enters the full-id index only sometimes", "file": OM, "expect": "C14.R2",
     "old": "        region.track_object(obj)\n        self._fullid_lookup[obj.FullID] = obj\n",
     "new": "        region.track_object(obj)\n        if obj.ParentID == 0:\n            self._fullid_lookup[obj.FullID] = obj\n"},
    {"name": "R2 untrack leaves the local-id entry", "file": OM, "expect": "C14.R2",
     "old": "        del self.localid_lookup[obj.LocalID]\n", "new": "        pass\n"},
    {"name": "P R2 paired inserts reordered", "file": OM, "expect": "silent",
     "old": "                parent.ChildIDs.insert(idx, obj.LocalID)\n                parent.Children.insert(idx, obj)\n",
     "new": "                parent.Children.insert(idx, obj)\n                parent.ChildIDs.insert(idx, obj.LocalID)\n"},
    {"name": "P R2 full-id store before track_object", "file": OM, "expect": "silent",
     "old": "        region.track_object(obj)\n        self._fullid_lookup[obj.FullID] = obj\n",
     "new": "        self._fullid_lookup[obj.FullID] = obj\n        region.track_object(obj)\n"},
    # ---- R3 optional results
    {"name": "R3 D13 reverted: old_region_state unguarded in the LocalID branch", "file": OM, "expect": "C14.R3",
     "old": "        elif old_local_id != new_local_id and old_region_state is not None:\n",
     "new": "        elif old_local_id != new_local_id:\n"},
    {"name": "R3 D13 reverted: old_region_state unguarded in the region-change branch", "file": OM, "expect": "C14.R3",
     "old": "            if old_region_state is not None:\n                old_region_state.untrack_object(obj)\n",
     "new": "            old_region_state.untrack_object(obj)\n"},
    {"name": "R3 new_region_state unguarded in the re-parent branch", "file": OM, "expect": "C14.R3",
     "old": "        elif new_parent_id != old_parent_id and new_region_state is not None:\n",
     "new": "        elif new_parent_id != old_parent_id:\n"},
    {"name": "P R3 early-exit form swapped for nested form", "file": OM, "expect": "silent",
     "old": "        if val is None:\n            return None\n        return val.state\n",
     "new": "        if val is not None:\n            return val.state\n        return None\n"},
    {"name": "P R3 rename a checked local", "file": OM, "expect": "silent",
     "old": "        val = self._get_region_manager(handle)\n        if val is None:\n            return None\n        return val.state\n",
     "new": "        mgr = self._get_region_manager(handle)\n        if mgr is None:\n            return None\n        return mgr.state\n"},
    # ---- R4 futures
    {"name": "R4 D12 reverted: break after the first matching key", "file": OM, "expect": "C14.R4",
     "old": "                for fut in futs:\n                    fut.cancel()\n",
     "new": "                for fut in futs:\n                    fut.cancel()\n                break\n"},
    {"name": "R4 untrack_object without cancel_futures", "file": OM, "expect": "C14.R4",
     "old": "        self.cancel_futures(obj.LocalID)\n", "new": ""},
    {"name": "R4 clear drops the table without cancelling", "file": OM, "expect": "C14.R4",
     "old": "        for fut in tuple(itertools.chain(*self._object_futures.values())):\n            fut.cancel()\n", "new": ""},
    {"name": "R4 done-callback pops the entry by key", "file": OM, "expect": "C14.R4",
     "old": "        fut.add_done_callback(local_futs.remove)\n",
     "new": "        def _forget(done_fut):\n            local_futs.remove(done_fut)\n            if not local_futs:\n"
            "                self._object_futures.pop(fut_key, None)\n        fut.add_done_callback(_forget)\n"},
    {"name": "R4 register_future overwrites earlier waiters", "file": OM, "expect": "C14.R4",
     "old": "        local_futs = self._object_futures.get(fut_key, [])\n", "new": "        local_futs = []\n"},
    {"name": "R4 resolve_futures looks up a swapped key", "file": OM, "expect": "C14.R4",
     "old": "self._object_futures.get((obj.LocalID, update_type), [])", "new": "self._object_futures.get((update_type, obj.LocalID), [])"},
    {"name": "R4 resolve_futures resolves finished futures again (fix cb5ff61 reverted)", "file": OM, "expect": "C14.R4",
     "old": "            if not fut.done():\n                fut.set_result(obj)\n", "new": "            fut.set_result(obj)\n"},
    {"name": "P R4 resolve_futures skips finished futures with continue", "file": OM, "expect": "silent",
     "old": "            if not fut.done():\n                fut.set_result(obj)\n",
     "new": "            if fut.done():\n                continue\n            fut.set_result(obj)\n"},
    {"name": "P R4 cancel_futures as continue-filter over a key snapshot", "file": OM, "expect": "silent",
     "old": _CANCEL_LOOP,
     "new": "        for fut_key in tuple(self._object_futures):\n"
            "            if fut_key[0] != local_id:\n"
            "                continue\n"
            "            for fut in self._object_futures[fut_key]:\n"
            "                fut.cancel()\n"},
    {"name": "P R4 done-callback prunes only its own empty list", "file": OM, "expect": "silent",
     "old": "        fut.add_done_callback(local_futs.remove)\n",
     "new": "        def _forget(done_fut):\n            local_futs.remove(done_fut)\n"
            "            if not local_futs and self._object_futures.get(fut_key) is local_futs:\n"
            "                del self._object_futures[fut_key]\n        fut.add_done_callback(_forget)\n"},
    {"name": "R4 cancel_futures looks up one update type only", "file": OM, "expect": "C14.R4",
     "old": _CANCEL_LOOP,
     "new": "        waiting = self._object_futures.get((local_id, ObjectUpdateType.PROPERTIES), [])\n"
            "        for fut in waiting:\n"
            "            fut.cancel()\n"},
    {"name": "P R4 cancel_futures by direct lookup over the whole update-type space", "file": OM, "expect": "silent",
     "old": _CANCEL_LOOP,
     "new": "        for kind in ObjectUpdateType:\n"
            "            for fut in self._object_futures.get((local_id, kind), ()):\n"
            "                fut.cancel()\n"},
    {"name": "P R4 rename locals in cancel_futures", "file": OM, "expect": "silent",
     "old": _CANCEL_LOOP,
     "new": "        for key, waiting in self._object_futures.items():\n"
            "            if key[0] == local_id:\n"
            "                for waiter in waiting:\n"
            "                    waiter.cancel()\n"},
    # ---- R5 dispatcher
    {"name": "R5 handler called directly", "file": OM, "expect": "C14.R5",
     "old": "        self.state.clear()\n        if self._region.handle is not None:\n",
     "new": "        self.state.clear()\n        self._world_objects._handle_kill_object(None)\n        if self._region.handle is not None:\n"},
    {"name": "R5 Event.notify re-raises handler failures", "file": EV, "expect": "C14.R5",
     "old": '                    LOG.exception(f"Failed in handler for {self.name}")\n',
     "new": '                    LOG.exception(f"Failed in handler for {self.name}")\n                    raise\n'},
    {"name": "P R5 bare except spelled BaseException", "file": EV, "expect": "silent",
     "old": "                except:\n                    # One handler failing shouldn't prevent notification of other handlers.\n",
     "new": "                except BaseException:\n                    # One handler failing shouldn't prevent notification of other handlers.\n"},
    # ---- R6 adoption / orphaning
    {"name": "R6 adoption loop deleted", "file": OM, "expect": "C14.R6",
     "old": _ADOPT_LOOP, "new": "        self.collect_orphans(obj.LocalID)\n"},
    {"name": "R6 merged loop orphans before unparenting (seed 1)", "file": OM, "expect": "C14.R6",
     "old": _UNPARENT_LOOP,
     "new": "        for child_id in obj.ChildIDs[:]:\n"
            "            child_obj = self.localid_lookup.get(child_id)\n"
            "            assert child_obj is not None\n"
            "            self._track_orphan(child_id, obj.LocalID)\n"
            "            self._unparent_object(child_obj, child_obj.ParentID)\n"},
    {"name": "R6 former children not orphaned", "file": OM, "expect": "C14.R6",
     "old": "        for child_id in former_child_ids:\n            self._track_orphan(child_id, obj.LocalID)\n", "new": ""},
    {"name": "R6 _parent_object(obj) only on some paths", "file": OM, "expect": "C14.R6",
     "old": "        self._parent_object(obj)\n\n        # Adopt any of our orphaned child objects.\n",
     "new": "        if obj.ParentID not in self.missing_locals:\n            self._parent_object(obj)\n\n"
            "        # Adopt any of our orphaned child objects.\n"},
    {"name": "R6 re-parenting links before it unlinks", "file": OM, "expect": "C14.R6",
     "old": "        self._unparent_object(obj, old_parent_id)\n"
            "        # Avatars get sent to the _end_ of the child list when reparented\n"
            "        self._parent_object(obj, insert_at_head=obj.PCode != PCode.AVATAR)\n",
     "new": "        self._parent_object(obj, insert_at_head=obj.PCode != PCode.AVATAR)\n"
            "        self._unparent_object(obj, old_parent_id)\n"},
    {"name": "R6 unparent loop iterates the live child list", "file": OM, "expect": "C14.R6",
     "old": "        former_child_ids = obj.ChildIDs[:]\n", "new": "        former_child_ids = obj.ChildIDs\n"},
    {"name": "R6 orphan loop snapshots after the children were unparented", "file": OM, "expect": "C14.R6",
     "old": "        for child_id in former_child_ids:\n            self._track_orphan(child_id, obj.LocalID)\n",
     "new": "        for child_id in obj.ChildIDs[:]:\n            self._track_orphan(child_id, obj.LocalID)\n"},
    {"name": "P R6 merged loop in the right order", "file": OM, "expect": "silent",
     "old": _UNPARENT_LOOP,
     "new": "        for child_id in obj.ChildIDs[:]:\n"
            "            child_obj = self.localid_lookup.get(child_id)\n"
            "            assert child_obj is not None\n"
            "            self._unparent_object(child_obj, child_obj.ParentID)\n"
            "            self._track_orphan(child_id, obj.LocalID)\n"},
    {"name": "P R6 adoption loop extracted into a helper", "expect": "silent",
     "edits": [
         {"file": OM, "old": _ADOPT_LOOP, "new": "        self._adopt_waiting_children(obj)\n"},
         {"file": OM, "old": "    def untrack_object(self, obj: Object):\n",
          "new": "    def _adopt_waiting_children(self, new_parent: Object):\n"
                 "        for waiting_id in self.collect_orphans(new_parent.LocalID):\n"
                 "            waiting = self.localid_lookup.get(waiting_id)\n"
                 "            assert waiting is not None\n"
                 "            self._parent_object(waiting)\n\n"
                 "    def untrack_object(self, obj: Object):\n"},
     ]},
    {"name": "P R6 rename loop variables in untrack_object", "file": OM, "expect": "silent",
     "old": _UNPARENT_LOOP,
     "new": "        kids = list(obj.ChildIDs)\n"
            "        for kid in kids:\n"
            "            kid_obj = self.localid_lookup[kid]\n"
            "            self._unparent_object(kid_obj, kid_obj.ParentID)\n"
            "\n"
            "        for kid in kids:\n"
            "            self._track_orphan(kid, parent_id=obj.LocalID)\n"},
    # ---- R2 kill handler / R7 latches (round 3)
    {"name": "R2 KillObject blocks skipped under an extra condition", "file": OM, "expect": "C14.R2",
     "old": "            self._kill_object_by_local_id(region_state, block[\"ID\"])\n            seen_locals.append(block[\"ID\"])\n",
     "new": "            seen_locals.append(block[\"ID\"])\n            if block[\"ID\"] in region_state.missing_locals:\n"
            "                continue\n            self._kill_object_by_local_id(region_state, block[\"ID\"])\n"},
    {"name": "P R2 KillObject bookkeeping before the kill", "file": OM, "expect": "silent",
     "old": "            self._kill_object_by_local_id(region_state, block[\"ID\"])\n            seen_locals.append(block[\"ID\"])\n",
     "new": "            killed_id = block[\"ID\"]\n            seen_locals.append(killed_id)\n"
            "            self._kill_object_by_local_id(region_state, killed_id)\n"},
    {"name": "R7 teardown keeps the object-cache latch set", "file": POM, "expect": "C14.R7",
     "old": "        self.object_cache = RegionViewerObjectCacheChain([])\n        self.cache_loaded = False\n"
            "        self.queued_cache_misses.clear()\n",
     "new": "        self.object_cache = RegionViewerObjectCacheChain([])\n        self.queued_cache_misses.clear()\n"},
    {"name": "P R7 cache reset extracted into a helper", "expect": "silent",
     "edits": [
         {"file": POM, "old": "        self.object_cache = RegionViewerObjectCacheChain([])\n        self.cache_loaded = False\n"
                              "        self.queued_cache_misses.clear()\n",
          "new": "        self._forget_cache()\n        self.queued_cache_misses.clear()\n"},
         {"file": POM, "old": "    def _is_localid_selected(self, localid: int):\n",
          "new": "    def _forget_cache(self):\n        self.cache_loaded = False\n"
                 "        self.object_cache = RegionViewerObjectCacheChain([])\n\n"
                 "    def _is_localid_selected(self, localid: int):\n"},
     ]},
    # ---- round 4
    {"name": "R4 resolve_futures only skips cancelled futures", "file": OM, "expect": "C14.R4",
     "old": "            if not fut.done():\n", "new": "            if not fut.cancelled():\n"},
    {"name": "P R4 resolve_futures tolerates InvalidStateError instead of testing done()", "file": OM, "expect": "silent",
     "old": "            if not fut.done():\n                fut.set_result(obj)\n",
     "new": "            try:\n                fut.set_result(obj)\n            except asyncio.InvalidStateError:\n                pass\n"},
    {"name": "R6 orphan loop iterates an alias of the live child list", "file": OM, "expect": "C14.R6",
     "old": "        former_child_ids = obj.ChildIDs[:]\n        for child_id in former_child_ids:\n            child_obj",
     "new": "        former_child_ids = obj.ChildIDs\n        for child_id in list(former_child_ids):\n            child_obj"},
    {"name": "R6 orphans of an untracked killed id collected only under a side condition", "file": OM, "expect": "C14.R6",
     "old": "            child_ids = region_state.collect_orphans(local_id)\n",
     "new": "            if region_state.missing_locals:\n                child_ids = region_state.collect_orphans(local_id)\n"
            "            else:\n                child_ids = []\n"},
    {"name": "P R6 collected orphans frozen into a tuple", "file": OM, "expect": "silent",
     "old": "            child_ids = region_state.collect_orphans(local_id)\n",
     "new": "            child_ids = tuple(region_state.collect_orphans(local_id))\n"},
    # ---- round 5
    {"name": "R2 local-id index holds its objects weakly", "file": OM, "expect": "C14.R2",
     "old": "        self.localid_lookup: Dict[int, Object] = {}\n",
     "new": "        self.localid_lookup: Dict[int, Object] = weakref.WeakValueDictionary()\n"},
    {"name": "P R2 index tables created with dict()", "file": OM, "expect": "silent",
     "old": "        self.localid_lookup: Dict[int, Object] = {}\n",
     "new": "        self.localid_lookup: Dict[int, Object] = dict()\n"},
    {"name": "R4 setdefault registration pre-filled with the new future only", "file": OM, "expect": "C14.R4",
     "old": "        local_futs = self._object_futures.get(fut_key, [])\n        local_futs.append(fut)\n"
            "        self._object_futures[fut_key] = local_futs\n",
     "new": "        local_futs = [fut]\n        self._object_futures[fut_key] = local_futs\n"},
    {"name": "P R4 registration through setdefault", "file": OM, "expect": "silent",
     "old": "        local_futs = self._object_futures.get(fut_key, [])\n        local_futs.append(fut)\n"
            "        self._object_futures[fut_key] = local_futs\n",
     "new": "        local_futs = self._object_futures.setdefault(fut_key, [])\n        local_futs.append(fut)\n"},
    {"name": "P R4 cancel_futures destructures the key", "file": OM, "expect": "silent",
     "old": _CANCEL_LOOP,
     "new": "        for (wanted_id, _kind), futs in self._object_futures.items():\n"
            "            if wanted_id == local_id:\n"
            "                for fut in futs:\n"
            "                    fut.cancel()\n"},
    {"name": "R4 destructured key filter stops at the first match", "file": OM, "expect": "C14.R4",
     "old": _CANCEL_LOOP,
     "new": "        for (wanted_id, _kind), futs in self._object_futures.items():\n"
            "            if wanted_id == local_id:\n"
            "                for fut in futs:\n"
            "                    fut.cancel()\n"
            "                break\n"},
    {"name": "X lazy-proxy guard any() narrowed to all() (value level)", "file": "hippolyzer/lib/base/objects.py", "expect": "miss",
     "old": "if any(isinstance(x, lazy_object_proxy.Proxy) for x in (old_val, val)):",
     "new": "if all(isinstance(x, lazy_object_proxy.Proxy) for x in (old_val, val)):"},
    # ---- round 6
    {"name": "R2 full-id store after the avatar bookkeeping", "file": OM, "expect": "C14.R2",
     "old": "        region.track_object(obj)\n        self._fullid_lookup[obj.FullID] = obj\n        if obj.PCode == PCode.AVATAR:\n"
            "            self._avatar_objects[obj.FullID] = obj\n            self._rebuild_avatar_objects()\n",
     "new": "        region.track_object(obj)\n        if obj.PCode == PCode.AVATAR:\n"
            "            self._avatar_objects[obj.FullID] = obj\n            self._rebuild_avatar_objects()\n"
            "        self._fullid_lookup[obj.FullID] = obj\n"},
    {"name": "P R2 only logging between the two index updates", "file": OM, "expect": "silent",
     "old": "        region.track_object(obj)\n        self._fullid_lookup[obj.FullID] = obj\n",
     "new": "        region.track_object(obj)\n        LOG.debug(\"Tracking %r\", obj)\n        self._fullid_lookup[obj.FullID] = obj\n"},
    # ---- round 7: registration symmetry, PCode table
    {"name": "R8 handshake registers the region only while its cache is unloaded", "file": LLUDP, "expect": "C14.R8",
     "old": "            self.session.objects.track_region_objects(region.handle)\n",
     "new": "            if not region.objects.cache_loaded:\n                self.session.objects.track_region_objects(region.handle)\n"},
    {"name": "P R8 handshake registers before it records the cache id, guarded by the handle", "file": LLUDP, "expect": "silent",
     "old": "            region.cache_id = message[\"RegionInfo\"][\"CacheID\"]\n"
            "            self.session.objects.track_region_objects(region.handle)\n",
     "new": "            if region.handle is not None:\n                self.session.objects.track_region_objects(region.handle)\n"
            "            region.cache_id = message[\"RegionInfo\"][\"CacheID\"]\n"},
    {"name": "R8 teardown releases the region only when it saw coarse locations", "file": OM, "expect": "C14.R8",
     "old": "        if self._region.handle is not None:\n            # We're tracked",
     "new": "        if self._region.handle is not None and self.state.coarse_locations:\n            # We're tracked"},
    {"name": "P R8 teardown with the handle in a local", "file": OM, "expect": "silent",
     "old": "        if self._region.handle is not None:\n            # We're tracked by the world object manager, tell it to untrack\n"
            "            # any objects that we owned\n            self._world_objects.untrack_region_objects(self._region.handle)\n",
     "new": "        handle = self._region.handle\n        if handle is None:\n            return\n"
            "        self._world_objects.untrack_region_objects(handle)\n"},
    {"name": "R8 object-state table without a default row", "file": TMPL, "expect": "C14.R8",
     "old": "                se.MISSING: se.IdentityAdapter(),\n", "new": "                PCode.TREE: se.IdentityAdapter(),\n"},
    {"name": "P R8 object-state table with explicit plant rows and the default", "file": TMPL, "expect": "silent",
     "old": "                se.MISSING: se.IdentityAdapter(),\n",
     "new": "                PCode.TREE: se.IdentityAdapter(),\n                PCode.GRASS: se.IdentityAdapter(),\n"
            "                se.MISSING: se.IdentityAdapter(),\n"},
    # ---- D37: one Object per FullID
    {"name": "R9 cache hit tracks a new Object without looking the FullID up (fix 51c7d93 reverted)", "file": OM, "expect": "C14.R9",
     "old": _D37_FIXED, "new": "                self._track_new_object(region_state, Object(**cached_obj), msg)\n"},
    {"name": "P R9 FullID lookup in another local with an early continue", "file": OM, "expect": "silent",
     "old": _D37_FIXED,
     "new": "                known = self.lookup_fullid(cached_obj[\"FullID\"])\n"
            "                if known is not None:\n"
            "                    self._update_existing_object(known, cached_obj, ObjectUpdateType.UPDATE, msg)\n"
            "                    continue\n"
            "                self._track_new_object(region_state, Object(**cached_obj), msg)\n"},
    {"name": "R9 guard tests the local-id lookup instead of the FullID lookup", "file": OM, "expect": "C14.R9",
     "old": "                obj = self.lookup_fullid(cached_obj[\"FullID\"])\n                if obj is not None:\n",
     "new": "                obj = region_state.lookup_localid(cached_obj[\"LocalID\"])\n                if obj is not None:\n"},
    # ---- round 8
    {"name": "R3 kill cascade dereferences the child lookup in place", "file": OM, "expect": "C14.R3",
     "old": "            child_obj = region_state.lookup_localid(child_id)\n            if child_obj and child_obj.PCode == PCode.AVATAR:\n",
     "new": "            if region_state.lookup_localid(child_id).PCode == PCode.AVATAR:\n"},
    {"name": "P R3 kill cascade child lookup under another name", "file": OM, "expect": "silent",
     "old": "            child_obj = region_state.lookup_localid(child_id)\n            if child_obj and child_obj.PCode == PCode.AVATAR:\n",
     "new": "            kid = region_state.lookup_localid(child_id)\n            if kid is not None and kid.PCode == PCode.AVATAR:\n"},
    {"name": "X cache chain flattened into one index per local id (data-level: members may hold different CRCs)", "file": VOC, "expect": "miss",
     "old": "        for cache in self.region_caches:\n            data = cache.lookup_object_data(local_id, crc)\n"
            "            if data:\n                return data\n",
     "new": "        for cache in self.region_caches[:1]:\n            data = cache.lookup_object_data(local_id, crc)\n"
            "            if data:\n                return data\n"},
    # ---- audit round: reverts of the fixes (inapplicable until the fix is committed) and their twins
    {"name": "R6 exempt avatar child of an untracked killed parent not re-orphaned (fix reverted)", "file": OM, "expect": "C14.R6",
     "old": _A1_FIXED, "new": "                continue\n            self._kill_object_by_local_id(region_state, child_id)\n"},
    {"name": "P R6 re-orphaning with keyword arguments", "file": OM, "expect": "silent",
     "old": "                    region_state._track_orphan(child_id, local_id)\n",
     "new": "                    region_state._track_orphan(local_id=child_id, parent_id=local_id)\n"},
    {"name": "R8 region_by_handle returns the first match dead or alive (fix reverted)", "file": STATE, "expect": "C14.R8",
     "old": _A2_FIXED,
     "new": "        for region in self.regions:\n            if region.handle == handle:\n                return region\n        return None\n"},
    {"name": "P R8 region_by_handle with the dead match under another name", "file": STATE, "expect": "silent",
     "old": _A2_FIXED,
     "new": "        dead_match = None\n        for candidate in self.regions:\n            if candidate.handle == handle:\n"
            "                if candidate.is_alive:\n                    return candidate\n"
            "                dead_match = dead_match or candidate\n        return dead_match\n"},
    {"name": "P R8 region_by_handle through a finder helper with predicate lambdas", "file": STATE, "expect": "silent",
     "old": "    def region_by_handle(self, handle: int) -> Optional[BaseClientRegion]:\n" + _A2_FIXED,
     "new": "    def _first_region(self, accepts):\n        for candidate in self.regions:\n            if accepts(candidate):\n"
            "                return candidate\n        return None\n\n"
            "    def region_by_handle(self, handle: int) -> Optional[BaseClientRegion]:\n"
            "        live = self._first_region(lambda r: r.handle == handle and r.is_alive)\n"
            "        if live is not None:\n            return live\n"
            "        return self._first_region(lambda r: r.handle == handle)\n"},
    {"name": "R8 finder helper asked for the handle only (dead region wins again)", "file": STATE, "expect": "C14.R8",
     "old": "    def region_by_handle(self, handle: int) -> Optional[BaseClientRegion]:\n" + _A2_FIXED,
     "new": "    def _first_region(self, accepts):\n        for candidate in self.regions:\n            if accepts(candidate):\n"
            "                return candidate\n        return None\n\n"
            "    def region_by_handle(self, handle: int) -> Optional[BaseClientRegion]:\n"
            "        return self._first_region(lambda r: r.handle == handle)\n"},
    {"name": "R4 unchanged reply leaves the request pending (fix reverted)", "file": OM, "expect": "C14.R4",
     "old": _A3_FIXED,
     "new": "        if actually_updated_props and new_region_state is not None:\n"
            "            self._run_object_update_hooks(obj, actually_updated_props, update_type, msg)\n"},
    {"name": "P R4 unchanged-reply branch first", "file": OM, "expect": "silent",
     "old": _A3_FIXED,
     "new": "        if new_region_state is not None:\n            if not actually_updated_props:\n"
            "                new_region_state.resolve_futures(obj, update_type)\n            else:\n"
            "                self._run_object_update_hooks(obj, actually_updated_props, update_type, msg)\n"},
    {"name": "R2 unloaded region's avatars stay in the avatar index (fix reverted)", "file": OM, "expect": "C14.R2",
     "old": "                # Avatars are indexed separately, that index has to forget the object too\n"
            "                self._avatar_objects.pop(obj.FullID, None)\n", "new": ""},
    {"name": "P R2 avatar index removal only for avatars", "file": OM, "expect": "silent",
     "old": "                # Avatars are indexed separately, that index has to forget the object too\n"
            "                self._avatar_objects.pop(obj.FullID, None)\n",
     "new": "                if obj.PCode == PCode.AVATAR:\n                    self._avatar_objects.pop(obj.FullID, None)\n"},
    {"name": "R8 world teardown does not clear the region managers (fix reverted)", "file": OM, "expect": "C14.R8",
     "old": _A5_FIXED,
     "new": "        for handle in tuple(self._region_managers.keys()):\n            self.untrack_region_objects(handle)\n"},
    {"name": "P R8 world teardown clears the managers in a loop of their own", "file": OM, "expect": "silent",
     "old": _A5_FIXED,
     "new": "        for manager in tuple(self._region_managers.values()):\n            manager.clear()\n"
            "        for handle in tuple(self._region_managers.keys()):\n            self.untrack_region_objects(handle)\n"},
    # ---- audit round 2 (reverts are inapplicable until the fix is committed)
    {"name": "R2 ownership taken from the region handles again (audit-2 fix reverted)", "expect": "C14.R2",
     "edits": [
         {"file": OM, "old": _A21_FIXED, "new": "        region_changed = old_region_handle != new_region_handle\n"},
     ]},
    {"name": "P R2 ownership asked of the index through localid_lookup.get into a flag", "file": OM, "expect": "silent",
     "old": _A21_FIXED,
     "new": "        owned = old_region_state is not None and old_region_state.localid_lookup.get(old_local_id) is obj\n"
            "        if not owned:\n            old_region_state = None\n"
            "        region_changed = old_region_handle != new_region_handle or not owned\n"},
    # ---- refactor round 8
    {"name": "P R8 object-state table named before it is handed to the dispatcher", "file": TMPL, "expect": "silent",
     "old": "        super().__init__(\n"
            "            # PCode is only a name when reading in plain-data mode\n"
            "            lambda ctx: PCode[ctx.PCode] if isinstance(ctx.PCode, str) else ctx.PCode, child_spec, {\n"
            "                PCode.AVATAR: se.IntFlag(AgentState),\n"
            "                PCode.PRIMITIVE: AttachmentStateAdapter(None),\n"
            "                # Other cases are probably just a number (tree species ID or something.)\n"
            "                se.MISSING: se.IdentityAdapter(),\n            }\n        )\n",
     "new": "        by_pcode = {\n"
            "            PCode.AVATAR: se.IntFlag(AgentState),\n"
            "            PCode.PRIMITIVE: AttachmentStateAdapter(None),\n"
            "            se.MISSING: se.IdentityAdapter(),\n        }\n"
            "        super().__init__(\n"
            "            lambda ctx: PCode[ctx.PCode] if isinstance(ctx.PCode, str) else ctx.PCode, child_spec, by_pcode)\n"},
    {"name": "R8 named object-state table without a default row", "file": TMPL, "expect": "C14.R8",
     "old": "        super().__init__(\n"
            "            # PCode is only a name when reading in plain-data mode\n"
            "            lambda ctx: PCode[ctx.PCode] if isinstance(ctx.PCode, str) else ctx.PCode, child_spec, {\n"
            "                PCode.AVATAR: se.IntFlag(AgentState),\n"
            "                PCode.PRIMITIVE: AttachmentStateAdapter(None),\n"
            "                # Other cases are probably just a number (tree species ID or something.)\n"
            "                se.MISSING: se.IdentityAdapter(),\n            }\n        )\n",
     "new": "        by_pcode = {\n"
            "            PCode.AVATAR: se.IntFlag(AgentState),\n"
            "            PCode.PRIMITIVE: AttachmentStateAdapter(None),\n"
            "            PCode.TREE: se.IdentityAdapter(),\n        }\n"
            "        super().__init__(\n"
            "            lambda ctx: PCode[ctx.PCode] if isinstance(ctx.PCode, str) else ctx.PCode, child_spec, by_pcode)\n"},
    # ---- round 9
    {"name": "R8 compressed normaliser converts the PCode without tolerating unnamed kinds", "file": "hippolyzer/lib/base/objects.py",
     "expect": "C14.R8",
     "old": "        try:\n            pcode = tmpls.PCode(pcode)\n        except ValueError:\n"
            "            # The template keeps kinds it has no name for as plain numbers as well\n            pass\n",
     "new": "        pcode = tmpls.PCode(pcode)\n"},
    {"name": "P R8 PCode conversion tolerant of ValueError and TypeError", "file": "hippolyzer/lib/base/objects.py", "expect": "silent",
     "old": "        except ValueError:\n            # The template keeps kinds it has no name for as plain numbers as well\n",
     "new": "        except (ValueError, TypeError):\n            # The template keeps kinds it has no name for as plain numbers as well\n"},
    {"name": "R5 subscribed handler reports a truthy result", "file": POM, "expect": "C14.R5",
     "old": "        self._process_materials_response(flow.response.content)\n",
     "new": "        self._process_materials_response(flow.response.content)\n        return True\n"},
    {"name": "P R5 subscribed handler ends with an explicit return None", "file": POM, "expect": "silent",
     "old": "        self._process_materials_response(flow.response.content)\n",
     "new": "        self._process_materials_response(flow.response.content)\n        return None\n"},
    # ---- documented limits
    {"name": "X missing_locals bookkeeping dropped (not observed by the statement)", "file": OM, "expect": "miss",
     "old": "        self.missing_locals -= {obj.LocalID}\n", "new": ""},
    {"name": "X link order guess inverted (value level)", "file": OM, "expect": "miss",
     "old": "idx = 0 if insert_at_head else len(parent.ChildIDs)", "new": "idx = len(parent.ChildIDs) if insert_at_head else 0"},
]
