"""Self-test corpus for C15: text edits on a scratch overlay (never on /repo)."""
EVM = "hippolyzer/lib/proxy/http_event_manager.py"
FLOW = "hippolyzer/lib/proxy/http_flow.py"
PROXY = "hippolyzer/lib/proxy/http_proxy.py"
CAPS = "hippolyzer/lib/proxy/caps.py"
REGION = "hippolyzer/lib/proxy/region.py"
MLOG = "hippolyzer/lib/proxy/message_logger.py"
WEBAPP = "hippolyzer/lib/proxy/webapp_cap_addon.py"
STATE = "hippolyzer/lib/client/state.py"
ADDONS = "hippolyzer/lib/proxy/addons.py"

_FINALLY = ("        finally:\n"
            "            # If someone has taken this request out of the regular callback flow,\n"
            "            # they'll manually send a callback at some later time.\n"
            "            if not flow.taken and not flow.resumed:\n"
            "                # Addon hasn't taken ownership of this flow, send it back to mitmproxy\n"
            "                # ourselves.\n"
            "                flow.resume()\n")

_RUN_TRY = ("            try:\n"
            "                await self.pump_proxy_event()\n"
            "            except:\n"
            "                LOG.exception(\"Exploded when handling parsed packets\")\n")

_PUMP_FINALLY = ("            finally:\n"
                 "                if orig_flow is not None:\n"
                 "                    orig_flow.resume()\n")

_PUMP_EXCEPT = ("            except:\n"
                "                logging.exception(\"Failed in HTTP callback\")\n")

_DEFAULTS = ("        meta.setdefault(\"can_stream\", True)\n"
             "        meta.setdefault(\"response_injected\", False)\n"
             "        meta.setdefault(\"request_injected\", False)\n"
             "        meta.setdefault(\"cap_data\", CapData())\n"
             "        meta.setdefault(\"from_browser\", False)\n")

VARIANTS = [
    # ------------------------------------------------------------------ R1
    {"name": "R1 resume after the try instead of in the finally", "file": EVM, "expect": "C15.R1",
     "old": _FINALLY,
     "new": "        finally:\n            pass\n        if not flow.taken and not flow.resumed:\n            flow.resume()\n"},
    {"name": "R1 `not flow.resumed` dropped from the guard", "file": EVM, "expect": "C15.R1",
     "old": "            if not flow.taken and not flow.resumed:\n", "new": "            if not flow.taken:\n"},
    {"name": "R1 guard strengthened (responses never handed back)", "file": EVM, "expect": "C15.R1",
     "old": "            if not flow.taken and not flow.resumed:\n",
     "new": "            if not flow.taken and not flow.resumed and event_type == \"request\":\n"},
    {"name": "R1 fallible logging call inside the finally before the resume (seed 1)", "file": EVM, "expect": "C15.R1",
     "old": "        finally:\n            # If someone has taken this request out",
     "new": ("        finally:\n"
             "            message_logger = self.session_manager.message_logger\n"
             "            if event_type == \"request\" and message_logger and flow.response_injected:\n"
             "                message_logger.log_http_response(flow)\n"
             "            # If someone has taken this request out")},
    {"name": "R1 fallible call between from_state and the try", "file": EVM, "expect": "C15.R1",
     "old": "        flow = HippoHTTPFlow.from_state(flow_state, self.session_manager)\n        try:\n",
     "new": ("        flow = HippoHTTPFlow.from_state(flow_state, self.session_manager)\n"
             "        self.session_manager.flow_seen(flow)\n        try:\n")},
    {"name": "R1 fallible call inside the guard before the resume", "file": EVM, "expect": "C15.R1",
     "old": "                # ourselves.\n                flow.resume()\n",
     "new": "                # ourselves.\n                self.session_manager.flow_done(flow)\n                flow.resume()\n"},
    {"name": "R1 event loop dies with the first failing event", "file": EVM, "expect": "C15.R1",
     "old": _RUN_TRY, "new": "            await self.pump_proxy_event()\n"},
    {"name": "R1 session search on the hydration path indexes a filtered list", "file": CAPS, "expect": "C15.R1",
     "old": "            for session in session_mgr.sessions:\n                if ser_cap_data.session_id == str(session.id):\n"
            "                    cap_session = session\n",
     "new": "            cap_session = [x for x in session_mgr.sessions if ser_cap_data.session_id == str(x.id)][0]\n"},
    {"name": "R1 region search on the hydration path via next(filter(...))", "file": CAPS, "expect": "C15.R1",
     "old": "            for region in cap_session.regions:\n                if ser_cap_data.region_addr == str(region.circuit_addr):\n"
            "                    cap_region = region\n",
     "new": "            cap_region = next(filter(lambda x: ser_cap_data.region_addr == str(x.circuit_addr), cap_session.regions))\n"},
    {"name": "P R1 session search via next(..., None)", "file": CAPS, "expect": "silent",
     "old": "            for session in session_mgr.sessions:\n                if ser_cap_data.session_id == str(session.id):\n"
            "                    cap_session = session\n",
     "new": "            cap_session = next((x for x in session_mgr.sessions if ser_cap_data.session_id == str(x.id)), None)\n"},
    {"name": "P R1 try/finally moved into a helper", "file": EVM, "expect": "silent",
     "old": "        flow = HippoHTTPFlow.from_state(flow_state, self.session_manager)\n        try:\n",
     "new": ("        flow = HippoHTTPFlow.from_state(flow_state, self.session_manager)\n"
             "        self._dispatch_event(event_type, flow)\n\n"
             "    def _dispatch_event(self, event_type, flow):\n        try:\n")},
    {"name": "P R1 debug logging in the finally", "file": EVM, "expect": "silent",
     "old": "        finally:\n            # If someone has taken this request out",
     "new": "        finally:\n            LOG.debug(\"handing back %s\" % flow.id)\n            # If someone has taken this request out"},
    {"name": "P R1 nested-if form of the guard", "file": EVM, "expect": "silent",
     "old": _FINALLY,
     "new": ("        finally:\n            if not flow.taken:\n                if not flow.resumed:\n"
             "                    flow.resume()\n")},
    {"name": "P R1 early-return form of the queue.Empty branch", "file": EVM, "expect": "silent",
     "old": "        except queue.Empty:\n            await asyncio.sleep(0.001)\n            return\n",
     "new": "        except queue.Empty:\n            return await asyncio.sleep(0.001)\n"},
    # ------------------------------------------------------------------ R2
    {"name": "R2 take() does not mark the flow taken", "file": FLOW, "expect": "C15.R2",
     "old": "        assert not self.taken and not self.resumed\n        self.taken = True\n",
     "new": "        assert not self.taken and not self.resumed\n"},
    {"name": "R2 take() without its precondition", "file": FLOW, "expect": "C15.R2",
     "old": "        assert not self.taken and not self.resumed\n", "new": ""},
    {"name": "R2 resume() does not mark the flow resumed", "file": FLOW, "expect": "C15.R2",
     "old": "        self.taken = False\n        self.resumed = True\n", "new": "        self.taken = False\n"},
    {"name": "R2 resume() without `assert not self.resumed`", "file": FLOW, "expect": "C15.R2",
     "old": "        assert not self.resumed\n", "new": ""},
    {"name": "R2 preempt() without its precondition", "file": FLOW, "expect": "C15.R2",
     "old": "        assert not self.taken and self.resumed\n", "new": ""},
    {"name": "R2 ownership flag written by the event manager", "file": EVM, "expect": "C15.R2",
     "old": "        flow.cap_data = cap_data\n        # Don't do anything special",
     "new": "        flow.cap_data = cap_data\n        flow.resumed = False\n        # Don't do anything special"},
    {"name": "R2 callback enqueued outside resume()", "file": EVM, "expect": "C15.R2",
     "old": "    def _handle_response(self, flow: HippoHTTPFlow):\n        message_logger = self.session_manager.message_logger\n",
     "new": ("    def _handle_response(self, flow: HippoHTTPFlow):\n"
             "        self.to_proxy_queue.put((\"callback\", flow.id, flow.get_state()))\n"
             "        message_logger = self.session_manager.message_logger\n")},
    {"name": "R2 callback payload without the flow id", "file": FLOW, "expect": "C15.R2",
     "old": "(\"callback\", self.flow.id, self.get_state())", "new": "(\"callback\", self.get_state())"},
    {"name": "R2 resume() enqueues only for taken flows", "file": FLOW, "expect": "C15.R2",
     "old": "        self.callback_queue().put((\"callback\", self.flow.id, self.get_state()))\n",
     "new": "        if self.callback_queue() is not None:\n"
            "            self.callback_queue().put((\"callback\", self.flow.id, self.get_state()))\n"},
    {"name": "P R2 explicit raise instead of assert", "file": FLOW, "expect": "silent",
     "old": "        assert not self.resumed\n",
     "new": "        if self.resumed:\n            raise RuntimeError(\"flow was already resumed\")\n"},
    {"name": "P R2 reorder the two flag stores in resume()", "file": FLOW, "expect": "silent",
     "old": "        self.taken = False\n        self.resumed = True\n", "new": "        self.resumed = True\n        self.taken = False\n"},
    {"name": "P R2 split take() precondition", "file": FLOW, "expect": "silent",
     "old": "        assert not self.taken and not self.resumed\n",
     "new": "        assert not self.taken\n        assert not self.resumed\n"},
    # ------------------------------------------------------------------ R3
    {"name": "R3 resume moved out of the finally into the callback branch", "expect": "C15.R3",
     "edits": [{"file": PROXY, "old": _PUMP_FINALLY, "new": ""},
               {"file": PROXY, "old": "                    orig_flow = self.flows[flow_id]\n                    orig_flow.set_state(flow_state)\n",
                "new": "                    orig_flow = self.flows[flow_id]\n                    orig_flow.set_state(flow_state)\n"
                       "                    orig_flow.resume()\n"}]},
    {"name": "R3 finally removed altogether", "file": PROXY, "expect": "C15.R3", "old": _PUMP_FINALLY, "new": ""},
    {"name": "R3 pump dies on a failing callback", "file": PROXY, "expect": "C15.R3", "old": _PUMP_EXCEPT, "new": ""},
    {"name": "R3 resume guard strengthened", "file": PROXY, "expect": "C15.R3",
     "old": "                if orig_flow is not None:\n                    orig_flow.resume()\n",
     "new": "                if orig_flow is not None and flow_state:\n                    orig_flow.resume()\n"},
    {"name": "R3 fallible call before the resume", "file": PROXY, "expect": "C15.R3",
     "old": "                if orig_flow is not None:\n                    orig_flow.resume()\n",
     "new": ("                if orig_flow is not None:\n"
             "                    mitmproxy.ctx.master.commands.call(\"view.flows.resolve\", [orig_flow])\n"
             "                    orig_flow.resume()\n")},
    {"name": "R3 guard variable bound only after set_state succeeded", "file": PROXY, "expect": "C15.R3",
     "old": "                    orig_flow = self.flows[flow_id]\n                    orig_flow.set_state(flow_state)\n",
     "new": "                    found = self.flows[flow_id]\n                    found.set_state(flow_state)\n"
            "                    orig_flow = found\n"},
    {"name": "P R3 look-up through a local, bound before set_state", "file": PROXY, "expect": "silent",
     "old": "                    orig_flow = self.flows[flow_id]\n                    orig_flow.set_state(flow_state)\n",
     "new": "                    found = self.flows[flow_id]\n                    orig_flow = found\n"
            "                    found.set_state(flow_state)\n"},
    {"name": "P R3 preempt look-up bound inside the presence test", "file": PROXY, "expect": "silent",
     "old": "                    orig_flow = self.flows.get(flow_id)\n                    if orig_flow:\n"
            "                        orig_flow.intercept()\n",
     "new": "                    found = self.flows.get(flow_id)\n                    if found:\n"
            "                        orig_flow = found\n                        orig_flow.intercept()\n"},
    {"name": "R3 ExitStack form: resume registered only after set_state", "expect": "C15.R3",
     "edits": [{"file": PROXY, "old": '            orig_flow: typing.Optional[HTTPFlow] = None\n            try:\n                try:\n                    event_type, flow_id, flow_state = self.to_proxy_queue.get(False)\n                except queue.Empty:\n                    await asyncio.sleep(0.001)\n                    continue\n                if event_type == "callback":\n                    orig_flow = self.flows[flow_id]\n                    orig_flow.set_state(flow_state)\n                elif event_type == "preempt":\n                    orig_flow = self.flows.get(flow_id)\n                    if orig_flow:\n                        orig_flow.intercept()\n                        orig_flow.set_state(flow_state)\n', "new": '            with contextlib.ExitStack() as on_exit:\n              try:\n                try:\n                    event_type, flow_id, flow_state = self.to_proxy_queue.get(False)\n                except queue.Empty:\n                    await asyncio.sleep(0.001)\n                    continue\n                if event_type == "callback":\n                    orig_flow = self.flows[flow_id]\n                    orig_flow.set_state(flow_state)\n                    if orig_flow is not None:\n                        on_exit.callback(orig_flow.resume)\n                elif event_type == "preempt":\n                    orig_flow = self.flows.get(flow_id)\n                    if orig_flow is not None:\n                        on_exit.callback(orig_flow.resume)\n                    if orig_flow:\n                        orig_flow.intercept()\n                        orig_flow.set_state(flow_state)\n'},
               {"file": PROXY, "old": '            except:\n                logging.exception("Failed in HTTP callback")\n            finally:\n                if orig_flow is not None:\n                    orig_flow.resume()\n', "new": '              except:\n                logging.exception("Failed in HTTP callback")\n'},
               {"file": PROXY, "old": "import asyncio\nimport logging\n", "new": "import asyncio\nimport contextlib\nimport logging\n"}]},
    {"name": "P R3 ExitStack form: resume registered right after the look-up", "expect": "silent",
     "edits": [{"file": PROXY, "old": '            orig_flow: typing.Optional[HTTPFlow] = None\n            try:\n                try:\n                    event_type, flow_id, flow_state = self.to_proxy_queue.get(False)\n                except queue.Empty:\n                    await asyncio.sleep(0.001)\n                    continue\n                if event_type == "callback":\n                    orig_flow = self.flows[flow_id]\n                    orig_flow.set_state(flow_state)\n                elif event_type == "preempt":\n                    orig_flow = self.flows.get(flow_id)\n                    if orig_flow:\n                        orig_flow.intercept()\n                        orig_flow.set_state(flow_state)\n', "new": '            with contextlib.ExitStack() as on_exit:\n              try:\n                try:\n                    event_type, flow_id, flow_state = self.to_proxy_queue.get(False)\n                except queue.Empty:\n                    await asyncio.sleep(0.001)\n                    continue\n                if event_type == "callback":\n                    orig_flow = self.flows[flow_id]\n                    if orig_flow is not None:\n                        on_exit.callback(orig_flow.resume)\n                    orig_flow.set_state(flow_state)\n                elif event_type == "preempt":\n                    orig_flow = self.flows.get(flow_id)\n                    if orig_flow is not None:\n                        on_exit.callback(orig_flow.resume)\n                    if orig_flow:\n                        orig_flow.intercept()\n                        orig_flow.set_state(flow_state)\n'},
               {"file": PROXY, "old": '            except:\n                logging.exception("Failed in HTTP callback")\n            finally:\n                if orig_flow is not None:\n                    orig_flow.resume()\n', "new": '              except:\n                logging.exception("Failed in HTTP callback")\n'},
               {"file": PROXY, "old": "import asyncio\nimport logging\n", "new": "import asyncio\nimport contextlib\nimport logging\n"}]},
    {"name": "P R3 truthiness form of the guard", "file": PROXY, "expect": "silent",
     "old": "                if orig_flow is not None:\n                    orig_flow.resume()\n",
     "new": "                if orig_flow:\n                    orig_flow.resume()\n"},
    {"name": "P R3 except Exception", "file": PROXY, "expect": "silent",
     "old": _PUMP_EXCEPT, "new": _PUMP_EXCEPT.replace("except:", "except Exception:")},
    # ------------------------------------------------------------------ R5
    {"name": "R5 webapp flow resumed only after the await returned (912d152 reverted)", "file": WEBAPP, "expect": "C15.R5",
     "old": '    try:\n        await asgiapp.serve(app, flow.flow)\n    finally:\n        # Send the modified flow object back to mitmproxy, also when serving failed or was\n        # cancelled (addon unload, session close.) A taken flow nobody resumes hangs forever.\n        flow.resume()\n', "new": "    await asgiapp.serve(app, flow.flow)\n    flow.resume()\n"},
    {"name": "R5 webapp handler bounded by wait_for, resume after the try", "expect": "C15.R5",
     "edits": [{"file": WEBAPP, "old": '    try:\n        await asgiapp.serve(app, flow.flow)\n    finally:\n        # Send the modified flow object back to mitmproxy, also when serving failed or was\n        # cancelled (addon unload, session close.) A taken flow nobody resumes hangs forever.\n        flow.resume()\n',
                "new": "    try:\n        await asyncio.wait_for(asgiapp.serve(app, flow.flow), 30.0)\n"
                       "    except asyncio.TimeoutError:\n        raise\n    flow.resume()\n"},
               {"file": WEBAPP, "old": "import abc\n", "new": "import abc\nimport asyncio\n"}]},
    {"name": "P R5 webapp handler bounded by wait_for, resume still in the finally", "expect": "silent",
     "edits": [{"file": WEBAPP, "old": "        await asgiapp.serve(app, flow.flow)\n    finally:\n",
                "new": "        await asyncio.wait_for(asgiapp.serve(app, flow.flow), 30.0)\n    finally:\n"},
               {"file": WEBAPP, "old": "import abc\n", "new": "import abc\nimport asyncio\n"}]},
    {"name": "R5 addon manager resumes flows a hook left taken", "file": ADDONS, "expect": "C15.R5",
     "old": "            return cls._call_all_addon_hooks(\"handle_http_request\", cls.SESSION_MANAGER, flow)\n",
     "new": "            handled = cls._call_all_addon_hooks(\"handle_http_request\", cls.SESSION_MANAGER, flow)\n"
            "            if flow.taken and not flow.resumed and not handled:\n                flow.resume()\n"
            "            return handled\n"},
    {"name": "P R5 taken flow handed to the serving coroutine by keyword", "file": WEBAPP, "expect": "silent",
     "old": "self._schedule_task(serve(self.APP, flow.take()))", "new": "self._schedule_task(serve(self.APP, flow=flow.take()))"},
    {"name": "R4 default request handling replaces an injected response again (af3a688 reverted)", "file": EVM, "expect": "C15.R4",
     "old": '        if flow.response_injected:\n            # An addon already answered this request itself, the default handling\n            # below must not replace its response.\n            pass\n        elif cap_data and cap_data.cap_name.endswith("ProxyWrapper"):\n', "new": "        if cap_data and cap_data.cap_name.endswith(\"ProxyWrapper\"):\n"},
    {"name": "P R4 injected-response test as an early return", "file": EVM, "expect": "silent",
     "old": '        if flow.response_injected:\n            # An addon already answered this request itself, the default handling\n            # below must not replace its response.\n            pass\n        elif cap_data and cap_data.cap_name.endswith("ProxyWrapper"):\n',
     "new": "        if flow.response_injected:\n            return\n"
            "        if cap_data and cap_data.cap_name.endswith(\"ProxyWrapper\"):\n"},
    {"name": "R4 second region registered on a circuit address already in use", "file": STATE, "expect": "C15.R4",
     "old": "            if region.circuit_addr == circuit_addr:\n",
     "new": "            if region.circuit_addr == circuit_addr:\n"
            "                if handle and region.handle and region.handle != handle:\n                    break\n"},
    {"name": "P R4 region reuse logged", "file": STATE, "expect": "silent",
     "old": "            if region.circuit_addr == circuit_addr:\n",
     "new": "            if region.circuit_addr == circuit_addr:\n"
            "                logging.debug(\"reusing %r\" % (region,))\n"},
    # ------------------------------------------------------------------ R4
    {"name": "R4 serialize omits type", "file": CAPS, "expect": "C15.R4",
     "old": "            base_url=self.base_url,\n            type=self.type.name,\n        )", "new": "            base_url=self.base_url,\n        )"},
    {"name": "R4 serialize cross-wires cap_name", "file": CAPS, "expect": "C15.R4",
     "old": "            cap_name=self.cap_name,\n            region_addr=", "new": "            cap_name=self.base_url,\n            region_addr="},
    {"name": "R4 deserialize ignores base_url", "file": CAPS, "expect": "C15.R4",
     "old": "            base_url=ser_cap_data.base_url,\n", "new": "            base_url=None,\n"},
    {"name": "R4 deserialize drops the cap type", "file": CAPS, "expect": "C15.R4",
     "old": "            base_url=ser_cap_data.base_url,\n            type=CapType[ser_cap_data.type],\n",
     "new": "            base_url=ser_cap_data.base_url,\n"},
    {"name": "R4 from_state reads a different key", "file": FLOW, "expect": "C15.R4",
     "old": "flow.metadata.get(\"cap_data_ser\")", "new": "flow.metadata.get(\"cap_data_s\")"},
    {"name": "R4 get_state does not restore cap_data", "file": FLOW, "expect": "C15.R4",
     "old": "        # Shove it back on\n        flow.metadata[\"cap_data\"] = cap_data\n        return state\n",
     "new": "        return state\n"},
    {"name": "R4 snapshot taken before the serialised cap data is stored", "expect": "C15.R4",
     "edits": [{"file": FLOW, "old": "        state = self.flow.get_state()\n        # Shove it back on\n", "new": "        # Shove it back on\n"},
               {"file": FLOW, "old": "flow.metadata.pop(\"cap_data\", None)\n",
                "new": "flow.metadata.pop(\"cap_data\", None)\n        state = self.flow.get_state()\n"}]},
    {"name": "R4 can_stream default applied with `or` (seed 2)", "file": FLOW, "expect": "C15.R4",
     "old": "        meta.setdefault(\"can_stream\", True)\n",
     "new": "        meta[\"can_stream\"] = meta.get(\"can_stream\") or True\n"},
    {"name": "R4 table-driven `or` defaults (seed 2 shape)", "file": FLOW, "expect": "C15.R4",
     "old": _DEFAULTS,
     "new": ("        for flag, default in {\"can_stream\": True, \"response_injected\": False,\n"
             "                              \"request_injected\": False, \"from_browser\": False}.items():\n"
             "            meta[flag] = meta.get(flag) or default\n"
             "        meta.setdefault(\"cap_data\", CapData())\n")},
    {"name": "R4 from_browser default missing", "file": FLOW, "expect": "C15.R4",
     "old": "        meta.setdefault(\"from_browser\", False)\n", "new": ""},
    {"name": "R4 request_injected overwritten on hydration", "file": FLOW, "expect": "C15.R4",
     "old": "        meta.setdefault(\"request_injected\", False)\n", "new": "        meta[\"request_injected\"] = False\n"},
    {"name": "R4 bridge tagging overwrites resolved cap data", "file": PROXY, "expect": "C15.R4",
     "old": "        elif not cap_data and not flow.metadata.get(\"from_browser\"):\n",
     "new": "        elif not flow.metadata.get(\"from_browser\"):\n"},
    {"name": "P R4 bridge tagging conjuncts swapped", "file": PROXY, "expect": "silent",
     "old": "        elif not cap_data and not flow.metadata.get(\"from_browser\"):\n",
     "new": "        elif not flow.metadata.get(\"from_browser\") and not cap_data:\n"},
    {"name": "P R4 bridge tagging re-reads the key in the guard", "file": PROXY, "expect": "silent",
     "old": "        elif not cap_data and not flow.metadata.get(\"from_browser\"):\n",
     "new": "        elif not flow.metadata.get(\"cap_data_ser\") and not flow.metadata.get(\"from_browser\"):\n"},
    {"name": "R4 session weakref dereferenced without a liveness check", "file": CAPS, "expect": "C15.R4",
     "old": "if self.session and self.session() else None", "new": "if self.session else None"},
    {"name": "P R4 liveness tested with `is not None`", "file": CAPS, "expect": "silent",
     "old": "if self.session and self.session() else None", "new": "if self.session and self.session() is not None else None"},
    {"name": "R4 pre-hook request URL written back after the addon hooks", "file": EVM, "expect": "C15.R4",
     "old": "        AddonManager.handle_http_request(flow)\n",
     "new": "        AddonManager.handle_http_request(flow)\n        if flow.request_injected:\n            flow.request.url = url\n"},
    {"name": "P R4 pre-hook request URL only logged after the addon hooks", "file": EVM, "expect": "silent",
     "old": "        AddonManager.handle_http_request(flow)\n",
     "new": "        AddonManager.handle_http_request(flow)\n        LOG.debug(\"addons saw %s\", url)\n"},
    {"name": "R4 ProxiedRegion overloads truthiness with __len__", "file": REGION, "expect": "C15.R4",
     "old": "    def mark_dead(self):\n        super().mark_dead()\n        self.eq_manager.clear()\n",
     "new": "    def mark_dead(self):\n        super().mark_dead()\n        self.eq_manager.clear()\n\n"
            "    def __len__(self):\n        return len(self.caps)\n"},
    {"name": "P R4 ProxiedRegion gains an unrelated dunder", "file": REGION, "expect": "silent",
     "old": "    def mark_dead(self):\n        super().mark_dead()\n        self.eq_manager.clear()\n",
     "new": "    def mark_dead(self):\n        super().mark_dead()\n        self.eq_manager.clear()\n\n"
            "    def __hash__(self):\n        return id(self)\n"},
    {"name": "R4 both flow queues bounded", "file": PROXY, "expect": "C15.R4",
     "old": "        self.from_proxy_queue = multiprocessing.Queue()\n        self.to_proxy_queue = multiprocessing.Queue()\n",
     "new": "        self.from_proxy_queue = multiprocessing.Queue(maxsize=64)\n        self.to_proxy_queue = multiprocessing.Queue(64)\n"},
    {"name": "P R4 only the inbound queue bounded", "file": PROXY, "expect": "silent",
     "old": "        self.from_proxy_queue = multiprocessing.Queue()\n        self.to_proxy_queue = multiprocessing.Queue()\n",
     "new": "        self.from_proxy_queue = multiprocessing.Queue(maxsize=64)\n        self.to_proxy_queue = multiprocessing.Queue(0)\n"},
    {"name": "R4 bridge tag names a cap type that does not exist", "file": PROXY, "expect": "C15.R4",
     "old": "SerializedCapData(cap_name=\"FirestormBridge\")", "new": "SerializedCapData(cap_name=\"FirestormBridge\", type=\"Normal\")"},
    {"name": "P R4 bridge tag spells out the default cap type name", "file": PROXY, "expect": "silent",
     "old": "SerializedCapData(cap_name=\"FirestormBridge\")", "new": "SerializedCapData(cap_name=\"FirestormBridge\", type=\"NORMAL\")"},
    {"name": "R4 log entry strips a header from the flow it wraps", "file": MLOG, "expect": "C15.R4",
     "old": "        # This was a request the proxy made through itself\n        self.meta[\"Synthetic\"] = flow.request_injected\n",
     "new": "        # This was a request the proxy made through itself\n        self.meta[\"Synthetic\"] = flow.request_injected\n"
            "        self.flow.request.headers.pop(\"X-Hippo-Injected\", None)\n"},
    {"name": "R4 log entry normalises the response body in place", "file": MLOG, "expect": "C15.R4",
     "old": "        # This was a request the proxy made through itself\n        self.meta[\"Synthetic\"] = flow.request_injected\n",
     "new": "        # This was a request the proxy made through itself\n        self.meta[\"Synthetic\"] = flow.request_injected\n"
            "        resp = self.flow.response\n        if resp is not None:\n            resp.content = resp.content or b\"\"\n"},
    {"name": "P R4 log entry caches a value read from the flow", "file": MLOG, "expect": "silent",
     "old": "        # This was a request the proxy made through itself\n        self.meta[\"Synthetic\"] = flow.request_injected\n",
     "new": "        # This was a request the proxy made through itself\n        self.meta[\"Synthetic\"] = flow.request_injected\n"
            "        url = self.flow.request.url\n        self.meta[\"URL\"] = url\n"},
    {"name": "R4 cap types become combinable flags", "expect": "C15.R4",
     "edits": [{"file": CAPS, "old": "class CapType(enum.Enum):\n", "new": "class CapType(enum.Flag):\n"},
               {"file": REGION, "old": "        self.register_cap(name, cap_url, CapType.PROXY_ONLY)\n",
                "new": "        self.register_cap(name, cap_url, CapType.PROXY_ONLY | CapType.TEMPORARY)\n"}]},
    {"name": "R4 cap types become flags even if only used as masks (composite kinds become expressible)", "expect": "C15.R4",
     "edits": [{"file": CAPS, "old": "class CapType(enum.Enum):\n", "new": "class CapType(enum.Flag):\n"},
               {"file": CAPS, "old": "        return self == CapType.PROXY_ONLY or self == CapType.WRAPPER\n",
                "new": "        return bool(self & (CapType.PROXY_ONLY | CapType.WRAPPER))\n"}]},
    {"name": "P R4 positional construction", "file": CAPS, "expect": "silent",
     "old": "            cap_name=self.cap_name,\n            region_addr=", "new": "            self.cap_name,\n            region_addr="},
    {"name": "P R4 `not in` form of a default", "file": FLOW, "expect": "silent",
     "old": "        meta.setdefault(\"can_stream\", True)\n",
     "new": "        if \"can_stream\" not in meta:\n            meta[\"can_stream\"] = True\n"},
    {"name": "P R4 get-with-default form", "file": FLOW, "expect": "silent",
     "old": "        meta.setdefault(\"response_injected\", False)\n",
     "new": "        meta[\"response_injected\"] = meta.get(\"response_injected\", False)\n"},
    {"name": "P R4 `or False` on a False-default flag", "file": FLOW, "expect": "silent",
     "old": "        meta.setdefault(\"from_browser\", False)\n",
     "new": "        meta[\"from_browser\"] = meta.get(\"from_browser\") or False\n"},
    {"name": "P R4 table-driven setdefault", "file": FLOW, "expect": "silent",
     "old": _DEFAULTS,
     "new": ("        for flag, default in {\"can_stream\": True, \"response_injected\": False,\n"
             "                              \"request_injected\": False, \"from_browser\": False}.items():\n"
             "            meta.setdefault(flag, default)\n"
             "        meta.setdefault(\"cap_data\", CapData())\n")},
    {"name": "P R4 rename the popped local in get_state", "expect": "silent",
     "edits": [{"file": FLOW, "old": "        cap_data: Optional[CapData] = flow.metadata.pop(\"cap_data\", None)\n"
                                     "        if cap_data is not None:\n"
                                     "            flow.metadata[\"cap_data_ser\"] = cap_data.serialize()\n",
                "new": "        popped: Optional[CapData] = flow.metadata.pop(\"cap_data\", None)\n"
                       "        if popped is not None:\n"
                       "            flow.metadata[\"cap_data_ser\"] = popped.serialize()\n"},
               {"file": FLOW, "old": "        # Shove it back on\n        flow.metadata[\"cap_data\"] = cap_data\n",
                "new": "        # Shove it back on\n        flow.metadata[\"cap_data\"] = popped\n"}]},
    # ------------------------------------------------------------------ documented limits
    {"name": "X type name lower-cased on the wire (CapType[...] lookup then fails; value-level)", "file": CAPS, "expect": "miss",
     "old": "            type=self.type.name,\n", "new": "            type=self.type.name.lower(),\n"},
    {"name": "X region matched by the wrong attribute on hydration (value-level)", "file": CAPS, "expect": "miss",
     "old": "if ser_cap_data.region_addr == str(region.circuit_addr):", "new": "if ser_cap_data.region_addr == str(region.handle):"},
]
