"""Self-test corpus for C16: exact-text edits on a scratch overlay (never on /repo)."""
REG = "hippolyzer/lib/proxy/region.py"
HEM = "hippolyzer/lib/proxy/http_event_manager.py"
SESS = "hippolyzer/lib/proxy/sessions.py"
CAPS = "hippolyzer/lib/proxy/caps.py"
STATE = "hippolyzer/lib/client/state.py"
CLIENT = "hippolyzer/lib/proxy/caps_client.py"
WEBAPP = "hippolyzer/lib/proxy/webapp_cap_addon.py"

_REQ_LOOP = '''            for known_cap_name, (known_cap_type, known_cap_url) in cap_data.region().caps.items():
                if known_cap_type == CapType.PROXY_ONLY and known_cap_name in parsed_seed:
                    # Nothing stops the name from being listed more than once
                    while known_cap_name in parsed_seed:
                        parsed_seed.remove(known_cap_name)
                    flow.metadata['needed_proxy_caps'].append(known_cap_name)
'''
_TEMP = '''                    temporary_caps = self.caps.popall(name)
                    temporary_caps.remove((cap_type, cap_url))
                    self.caps.extend((name, x) for x in temporary_caps)
                    self._recalc_caps()
'''

VARIANTS = [
    # ---- R1 breaking
    {"name": "R1 register_proxy_cap indices swapped again (D14)", "file": REG, "expect": "C16.R1",
     "old": "        for cap_type, cap_url in self.caps.getall(name, []):\n            if cap_type == CapType.PROXY_ONLY:\n                return cap_url",
     "new": "        for entry in self.caps.getall(name, []):\n            if entry[1] == CapType.PROXY_ONLY:\n                return entry[0]"},
    {"name": "R1 register_proxy_cap returns the type of the existing cap", "file": REG, "expect": "C16.R1,C16.R12",
     "old": "            if cap_type == CapType.PROXY_ONLY:\n                return cap_url\n        return None",
     "new": "            if cap_type == CapType.PROXY_ONLY:\n                return cap_type\n        return None"},
    {"name": "R1 cap_urls exposes position 0", "file": REG, "expect": "C16.R1",
     "old": "multidict.MultiDict((x, y[1]) for x, y in self.caps.items())",
     "new": "multidict.MultiDict((x, y[0]) for x, y in self.caps.items())"},
    {"name": "R1 _recalc_caps unpacks (url, type)", "file": REG, "expect": "C16.R1",
     "old": "            cap_type, cap_url = cap_info", "new": "            cap_url, cap_type = cap_info"},
    {"name": "R1 register_cap stores (url, type)", "file": REG, "expect": "C16.R1",
     "old": "self.caps.add(name, (cap_type, cap_url))", "new": "self.caps.add(name, (cap_url, cap_type))"},
    {"name": "R1 reverse index stores (name, type)", "file": REG, "expect": "C16.R1",
     "old": "self._caps_url_lookup[cap_url] = (cap_type, name)", "new": "self._caps_url_lookup[cap_url] = (name, cap_type)"},
    {"name": "R1 Session.resolve_cap unpacks (name, type, url)", "file": SESS, "expect": "C16.R1",
     "old": "cap_name, base_url, cap_type = best", "new": "cap_name, cap_type, base_url = best"},
    {"name": "R1 region.resolve_cap returns (url, name, type)", "file": REG, "expect": "C16.R1",
     "old": "                return name, cap_url, cap_type", "new": "                return cap_url, name, cap_type"},
    {"name": "R1 seed request unpacks (url, type)", "file": HEM, "expect": "C16.R1",
     "old": "for known_cap_name, (known_cap_type, known_cap_url) in", "new": "for known_cap_name, (known_cap_url, known_cap_type) in"},
    {"name": "R1 wrapper URL derived from position 0", "file": REG, "expect": "C16.R1",
     "old": "urllib.parse.urlsplit(self.caps[name][1])", "new": "urllib.parse.urlsplit(self.caps[name][0])"},
    # ---- R1 preserving
    {"name": "P R1 unpack instead of indexing in register_proxy_cap", "file": REG, "expect": "silent",
     "old": "        for cap_type, cap_url in self.caps.getall(name, []):\n            if cap_type == CapType.PROXY_ONLY:\n                return cap_url",
     "new": "        for entry in self.caps.getall(name, []):\n            if entry[0] == CapType.PROXY_ONLY:\n                return entry[1]"},
    {"name": "P R1 _recalc_caps indexes instead of unpacking", "file": REG, "expect": "silent",
     "old": "            cap_type, cap_url = cap_info\n            self._caps_url_lookup[cap_url] = (cap_type, name)",
     "new": "            self._caps_url_lookup[cap_info[1]] = (cap_info[0], name)"},
    {"name": "P R1 cap_urls with descriptive names", "file": REG, "expect": "silent",
     "old": "multidict.MultiDict((x, y[1]) for x, y in self.caps.items())",
     "new": "multidict.MultiDict((cap_name, cap_url) for cap_name, (_cap_type, cap_url) in self.caps.items())"},
    # ---- R2 breaking
    {"name": "R2 CapsMultiDict.add appends", "file": REG, "expect": "C16.R2",
     "old": "vals = [value] + self.popall(key, [])", "new": "vals = self.popall(key, []) + [value]"},
    {"name": "R2 CapsMultiDict.add without popping", "file": REG, "expect": "C16.R2",
     "old": "        vals = [value] + self.popall(key, [])\n        for val in vals:\n            super().add(key, val)",
     "new": "        super().add(key, value)"},
    {"name": "R2 CapsMultiDict.add re-inserts old values reversed", "file": REG, "expect": "C16.R2",
     "old": "        for val in vals:\n            super().add(key, val)", "new": "        for val in reversed(vals):\n            super().add(key, val)"},
    {"name": "R2 caps is a plain MultiDict", "file": REG, "expect": "C16.R2",
     "old": "self.caps = CapsMultiDict()", "new": "self.caps = multidict.MultiDict()"},
    {"name": "R2 update_caps skips an already-known (type, url) (seed 1)", "file": REG, "expect": "C16.R2",
     "old": "                self.caps.add(cap_name, (CapType.NORMAL, cap_url))\n",
     "new": "                cap_info = (CapType.NORMAL, cap_url)\n                if cap_info in self.caps.getall(cap_name, ()):\n"
            "                    continue\n                self.caps.add(cap_name, cap_info)\n"},
    {"name": "R2 update_caps only grants names it has not seen", "file": REG, "expect": "C16.R2",
     "old": "            if isinstance(cap_url, str) and cap_url.startswith('http'):",
     "new": "            if isinstance(cap_url, str) and cap_url.startswith('http') and cap_name not in self.caps:"},
    {"name": "R2 register_cap replaces by item assignment", "file": REG, "expect": "C16.R2",
     "old": "        self.caps.add(name, (cap_type, cap_url))", "new": "        self.caps[name] = (cap_type, cap_url)"},
    # ---- R2 preserving
    {"name": "P R2 add builds the list with insert(0)", "file": REG, "expect": "silent",
     "old": "        vals = [value] + self.popall(key, [])\n", "new": "        vals = self.popall(key, [])\n        vals.insert(0, value)\n"},
    {"name": "P R2 add emits the new value first, then the old ones", "file": REG, "expect": "silent",
     "old": "        vals = [value] + self.popall(key, [])\n        for val in vals:\n            super().add(key, val)",
     "new": "        previous = self.popall(key, [])\n        super().add(key, value)\n        for old_val in previous:\n            super().add(key, old_val)"},
    {"name": "P R2 update_caps skips a grant that is already in front", "file": REG, "expect": "silent",
     "old": "                self.caps.add(cap_name, (CapType.NORMAL, cap_url))\n                self._recalc_caps()",
     "new": "                if self.caps.get(cap_name) != (CapType.NORMAL, cap_url):\n"
            "                    self.caps.add(cap_name, (CapType.NORMAL, cap_url))\n                    self._recalc_caps()"},
    # ---- R3 breaking
    {"name": "R3 register_cap without _recalc_caps", "file": REG, "expect": "C16.R3",
     "old": "        self.caps.add(name, (cap_type, cap_url))\n        self._recalc_caps()", "new": "        self.caps.add(name, (cap_type, cap_url))"},
    {"name": "R3 update_caps recalculates only for the Seed cap", "file": REG, "expect": "C16.R3",
     "old": "                self.caps.add(cap_name, (CapType.NORMAL, cap_url))\n                self._recalc_caps()",
     "new": "                self.caps.add(cap_name, (CapType.NORMAL, cap_url))\n                if cap_name == 'Seed':\n                    self._recalc_caps()"},
    {"name": "R3 consumed temporary cap not re-indexed", "file": REG, "expect": "C16.R3",
     "old": "                    self.caps.extend((name, x) for x in temporary_caps)\n                    self._recalc_caps()\n",
     "new": "                    self.caps.extend((name, x) for x in temporary_caps)\n"},
    {"name": "R3 _recalc_caps does not empty the index", "file": REG, "expect": "C16.R3",
     "old": "        self._caps_url_lookup.clear()\n        for name, cap_info", "new": "        for name, cap_info"},
    {"name": "R3 _recalc_caps skips temporary caps", "file": REG, "expect": "C16.R3",
     "old": "            cap_type, cap_url = cap_info\n            self._caps_url_lookup[cap_url] = (cap_type, name)",
     "new": "            cap_type, cap_url = cap_info\n            if cap_type != CapType.TEMPORARY:\n                self._caps_url_lookup[cap_url] = (cap_type, name)"},
    {"name": "R3 uploader cap added to region.caps from the HTTP handler", "file": HEM, "expect": "C16.R3",
     "old": 'region.register_cap(cap_data.cap_name + "Uploader", parsed["uploader"], CapType.TEMPORARY)',
     "new": 'region.caps.add(cap_data.cap_name + "Uploader", (CapType.TEMPORARY, parsed["uploader"]))'},
    {"name": "R3 index written from register_cap", "file": REG, "expect": "C16.R3",
     "old": "        self.caps.add(name, (cap_type, cap_url))\n        self._recalc_caps()",
     "new": "        self.caps.add(name, (cap_type, cap_url))\n        self._recalc_caps()\n        self._caps_url_lookup[cap_url] = (cap_type, name)"},
    {"name": "R3 resolve_cap keeps iterating the index after rebuilding it", "expect": "C16.R3",
     "edits": [
         {"file": REG, "old": "        for cap_url in sorted(self._caps_url_lookup.keys(), key=len, reverse=True):",
          "new": "        for cap_url in self._caps_url_lookup.keys():"},
         {"file": REG, "old": "                    self._recalc_caps()\n                return name, cap_url, cap_type",
          "new": "                    self._recalc_caps()\n                    continue\n                return name, cap_url, cap_type"}]},
    # ---- R3 preserving
    {"name": "P R3 update_caps recalculates once after the loop", "file": REG, "expect": "silent",
     "old": "                self.caps.add(cap_name, (CapType.NORMAL, cap_url))\n                self._recalc_caps()\n",
     "new": "                self.caps.add(cap_name, (CapType.NORMAL, cap_url))\n        self._recalc_caps()\n"},
    {"name": "P R3 _recalc_caps replaces the dict instead of clearing it", "file": REG, "expect": "silent",
     "old": "        self._caps_url_lookup.clear()\n        for name, cap_info", "new": "        self._caps_url_lookup = {}\n        for name, cap_info"},
    {"name": "P R3 register_cap via try/finally with logging", "file": REG, "expect": "silent",
     "old": "        self.caps.add(name, (cap_type, cap_url))\n        self._recalc_caps()",
     "new": "        try:\n            self.caps.add(name, (cap_type, cap_url))\n        finally:\n            self._recalc_caps()"},
    # ---- R4 breaking
    {"name": "R4 TEMPORARY cap never consumed", "file": REG, "expect": "C16.R4",
     "old": "                if cap_type == CapType.TEMPORARY and consume:\n                    # Resolving a temporary cap pops it out of the dict\n" + _TEMP,
     "new": ""},
    {"name": "R4 siblings under the same name are lost", "file": REG, "expect": "C16.R4",
     "old": "                    self.caps.extend((name, x) for x in temporary_caps)\n", "new": ""},
    {"name": "R4 first entry dropped instead of the matched one", "file": REG, "expect": "C16.R4",
     "old": "temporary_caps.remove((cap_type, cap_url))", "new": "temporary_caps.pop(0)"},
    {"name": "R4 consumption for every type but TEMPORARY", "file": REG, "expect": "C16.R4",
     "old": "if cap_type == CapType.TEMPORARY and consume:", "new": "if cap_type != CapType.TEMPORARY and consume:"},
    {"name": "R4 consumption for NORMAL caps", "file": REG, "expect": "C16.R4",
     "old": "if cap_type == CapType.TEMPORARY and consume:", "new": "if cap_type == CapType.NORMAL and consume:"},
    {"name": "R4 match direction inverted", "file": REG, "expect": "C16.R4",
     "old": "            if url.startswith(cap_url):", "new": "            if cap_url.startswith(url):"},
    {"name": "R4 matched entry re-inserted before it is dropped", "file": REG, "expect": "C16.R4",
     "old": "                    temporary_caps.remove((cap_type, cap_url))\n                    self.caps.extend((name, x) for x in temporary_caps)\n",
     "new": "                    self.caps.extend((name, x) for x in temporary_caps)\n                    temporary_caps.remove((cap_type, cap_url))\n"},
    {"name": "R4 survivors re-added through the prepending add (order reversed)", "file": REG, "expect": "C16.R4",
     "old": "                    self.caps.extend((name, x) for x in temporary_caps)\n",
     "new": "                    for survivor in temporary_caps:\n                        self.caps.add(name, survivor)\n"},
    # ---- R4 preserving
    {"name": "P R4 survivors re-added through add, oldest first", "file": REG, "expect": "silent",
     "old": "                    self.caps.extend((name, x) for x in temporary_caps)\n",
     "new": "                    for survivor in reversed(temporary_caps):\n                        self.caps.add(name, survivor)\n"},
    {"name": "P R4 nested ifs and renamed local", "file": REG, "expect": "silent",
     "old": "                if cap_type == CapType.TEMPORARY and consume:\n                    # Resolving a temporary cap pops it out of the dict\n" + _TEMP,
     "new": "                if consume:\n                    if cap_type == CapType.TEMPORARY:\n"
            "                        same_name = self.caps.popall(name)\n"
            "                        same_name.remove((cap_type, cap_url))\n"
            "                        self.caps.extend((name, kept) for kept in same_name)\n"
            "                        self._recalc_caps()\n"},
    # ---- R5 breaking
    {"name": "R5 request loop removes from the list it iterates (seed 2)", "file": HEM, "expect": "C16.R5",
     "old": _REQ_LOOP,
     "new": '''            region_caps = cap_data.region().caps
            for wanted_cap_name in parsed_seed:
                known_cap_type, _ = region_caps.get(wanted_cap_name, (None, None))
                if known_cap_type == CapType.PROXY_ONLY:
                    while wanted_cap_name in parsed_seed:
                        parsed_seed.remove(wanted_cap_name)
                    flow.metadata['needed_proxy_caps'].append(wanted_cap_name)
'''},
    {"name": "R5 wrapper caps stripped from the request too", "file": HEM, "expect": "C16.R5",
     "old": "if known_cap_type == CapType.PROXY_ONLY and known_cap_name in parsed_seed:",
     "new": "if known_cap_type.fake and known_cap_name in parsed_seed:"},
    {"name": "R5 stripped name not recorded", "file": HEM, "expect": "C16.R5",
     "old": "                    flow.metadata['needed_proxy_caps'].append(known_cap_name)\n", "new": ""},
    {"name": "R5 recorded name not stripped", "file": HEM, "expect": "C16.R5",
     "old": "                    while known_cap_name in parsed_seed:\n                        parsed_seed.remove(known_cap_name)\n", "new": ""},
    {"name": "R5 upstream request not rewritten", "file": HEM, "expect": "C16.R5",
     "old": "            if flow.metadata['needed_proxy_caps']:\n                flow.request.content = llsd.format_xml(parsed_seed)\n", "new": ""},
    {"name": "R5 response drops a cap the simulator granted", "file": HEM, "expect": "C16.R5",
     "old": "                region.update_caps(parsed)\n", "new": "                region.update_caps(parsed)\n                parsed.pop('EventQueueGet', None)\n"},
    {"name": "R5 wrapper invented for names the simulator did not grant", "file": HEM, "expect": "C16.R5",
     "old": "                    if cap_name in parsed:\n                        parsed[cap_name] = region.register_wrapper_cap(cap_name)",
     "new": "                    parsed[cap_name] = region.register_wrapper_cap(cap_name)"},
    {"name": "R5 recorded names get the Seed URL", "file": HEM, "expect": "C16.R5",
     "old": "parsed[cap_name] = region.proxy_cap_url(cap_name)", "new": "parsed[cap_name] = region.proxy_cap_url('Seed')"},
    {"name": "R5 recorded names re-added only when absent", "file": HEM, "expect": "C16.R5",
     "old": "                    parsed[cap_name] = region.proxy_cap_url(cap_name)",
     "new": "                    if cap_name == 'Seed':\n                        parsed[cap_name] = region.proxy_cap_url(cap_name)"},
    {"name": "R5 response not re-serialised", "file": HEM, "expect": "C16.R5",
     "old": "                flow.response.content = llsd.format_xml(parsed)\n            elif cap_data.cap_name == \"EventQueueGet\":",
     "new": "            elif cap_data.cap_name == \"EventQueueGet\":"},
    {"name": "R5 region learns the rewritten map (update_caps after wrapping)", "expect": "C16.R5", "edits": [
        {"file": HEM, "old": "                region.update_caps(parsed)\n", "new": ""},
        {"file": HEM, "old": "                flow.response.content = llsd.format_xml(parsed)\n            elif cap_data.cap_name == \"EventQueueGet\":",
         "new": "                region.update_caps(parsed)\n                flow.response.content = llsd.format_xml(parsed)\n"
                "            elif cap_data.cap_name == \"EventQueueGet\":"}]},
    {"name": "R5 response reads another metadata key", "file": HEM, "expect": "C16.R5",
     "old": "for cap_name in flow.metadata['needed_proxy_caps']:", "new": "for cap_name in flow.metadata['proxy_caps']:"},
    {"name": "R5 strip decision from the newest entry of the name only", "file": HEM, "expect": "C16.R5",
     "old": _REQ_LOOP,
     "new": '''            granted = cap_data.region().caps
            for asked in sorted(set(parsed_seed)):
                if asked in granted and granted[asked][0] == CapType.PROXY_ONLY:
                    while asked in parsed_seed:
                        parsed_seed.remove(asked)
                    flow.metadata['needed_proxy_caps'].append(asked)
'''},
    # ---- R5 preserving
    {"name": "P R5 request loop with continue and an alias for the record list", "file": HEM, "expect": "silent",
     "old": "            flow.metadata['needed_proxy_caps'] = []\n" + _REQ_LOOP + "            if flow.metadata['needed_proxy_caps']:",
     "new": '''            needed = flow.metadata['needed_proxy_caps'] = []
            for cap_name, (cap_type, _cap_url) in cap_data.region().caps.items():
                if cap_type != CapType.PROXY_ONLY:
                    continue
                if cap_name not in parsed_seed:
                    continue
                needed.append(cap_name)
                while cap_name in parsed_seed:
                    parsed_seed.remove(cap_name)
            if needed:'''},
    {"name": "P R5 request loop over a copy of the requested names, every entry of the name consulted", "file": HEM,
     "expect": "silent", "old": _REQ_LOOP,
     "new": '''            region_caps = cap_data.region().caps
            for wanted_cap_name in list(parsed_seed):
                if any(entry_type == CapType.PROXY_ONLY for entry_type, _url in region_caps.getall(wanted_cap_name, ())):
                    while wanted_cap_name in parsed_seed:
                        parsed_seed.remove(wanted_cap_name)
                    flow.metadata['needed_proxy_caps'].append(wanted_cap_name)
'''},
    {"name": "P R5 response wrapper loop with early continue", "file": HEM, "expect": "silent",
     "old": "                    if cap_name in parsed:\n                        parsed[cap_name] = region.register_wrapper_cap(cap_name)",
     "new": "                    if cap_name not in parsed:\n                        continue\n                    parsed[cap_name] = region.register_wrapper_cap(cap_name)"},
    # ---- R6 breaking
    {"name": "R6 wrapper host derived from the region handle", "file": REG, "expect": "C16.R6",
     "old": 'seed_id = self.caps["Seed"][1].encode("utf8")', "new": 'seed_id = str(self.handle).encode("utf8")'},
    {"name": "R6 proxy-only URL derived from the cap name", "file": REG, "expect": "C16.R6",
     "old": 'cap_url = f"http://{uuid.uuid4()!s}.caps.hippo-proxy.localhost"',
     "new": 'cap_url = f"http://{name.lower()}.caps.hippo-proxy.localhost"'},
    # ---- R6 preserving
    {"name": "P R6 wrapper host hashed from the whole Seed URL", "file": REG, "expect": "silent",
     "old": 'seed_id = self.caps["Seed"][1].encode("utf8")',
     "new": 'seed_url = self.caps["Seed"][1]\n        seed_id = seed_url.encode("utf8")'},
    {"name": "P R6 wrapper host from a fresh random id", "file": REG, "expect": "silent",
     "old": 'seed_id = self.caps["Seed"][1].encode("utf8")', "new": 'seed_id = uuid.uuid4().bytes'},
    # ---- round 3 mechanisms
    {"name": "R2 add() leaves an already-stored value where it is", "file": REG, "expect": "C16.R2",
     "old": "        vals = [value] + self.popall(key, [])\n",
     "new": "        vals = self.popall(key, [])\n        if value in vals:\n            pass\n        else:\n            vals.insert(0, value)\n"},
    {"name": "P R2 add() moves an already-stored value to the front", "file": REG, "expect": "silent",
     "old": "        vals = [value] + self.popall(key, [])\n",
     "new": "        vals = [value] + [old for old in self.popall(key, []) if old != value]\n"},
    {"name": "R7 region re-attached only when it has a circuit", "file": CAPS, "expect": "C16.R7",
     "old": "                if ser_cap_data.region_addr == str(region.circuit_addr):",
     "new": "                if ser_cap_data.region_addr == str(region.circuit_addr) and region.circuit:"},
    {"name": "R7 region matched against another attribute than serialize wrote", "file": CAPS, "expect": "C16.R7",
     "old": "                if ser_cap_data.region_addr == str(region.circuit_addr):",
     "new": "                if ser_cap_data.region_addr == str(region.handle):"},
    {"name": "P R7 region selected with next() over a generator", "file": CAPS, "expect": "silent",
     "old": "            for region in cap_session.regions:\n                if ser_cap_data.region_addr == str(region.circuit_addr):\n"
            "                    cap_region = region\n",
     "new": "            cap_region = next((candidate for candidate in cap_session.regions\n"
            "                               if ser_cap_data.region_addr == str(candidate.circuit_addr)), None)\n"},
    {"name": "R8 global cap stored when the login value is merely not None", "file": STATE, "expect": "C16.R8",
     "old": "        if map_image_service:\n", "new": "        if map_image_service is not None:\n"},
    {"name": "P R8 global cap guard spelled with isinstance", "file": STATE, "expect": "silent",
     "old": "        if map_image_service:\n", "new": "        if isinstance(map_image_service, str) and map_image_service:\n"},
    {"name": "R8 Seed cap stored without the emptiness guard", "file": REG, "expect": "C16.R8",
     "old": "        if seed_cap:\n            self.caps[\"Seed\"] = (CapType.NORMAL, seed_cap)",
     "new": "        if seed_cap is not None:\n            self.caps[\"Seed\"] = (CapType.NORMAL, seed_cap)"},
    {"name": "R8 uploader URL registered on key presence only (reverts fix: an empty uploader URL resolves every request)",
     "file": HEM, "expect": "C16.R8",
     "old": '                if parsed.get("uploader"):', "new": '                if "uploader" in parsed:'},
    {"name": "P R8 emptiness of registered URLs checked in register_cap itself", "expect": "silent", "edits": [
        {"file": HEM, "old": '                if parsed.get("uploader"):', "new": '                if "uploader" in parsed:'},
        {"file": REG, "old": "        self.caps.add(name, (cap_type, cap_url))\n        self._recalc_caps()",
         "new": "        if not cap_url:\n            raise ValueError('empty cap URL')\n        self.caps.add(name, (cap_type, cap_url))\n        self._recalc_caps()"}]},
    # ---- round 4 mechanisms
    {"name": "R9 regions without a handle are not asked to resolve", "file": SESS, "expect": "C16.R9",
     "old": "            resolved_cap = region.resolve_cap(url, consume=False)\n",
     "new": "            if not region.handle:\n                continue\n            resolved_cap = region.resolve_cap(url, consume=False)\n"},
    {"name": "R9 only the main region is asked", "file": SESS, "expect": "C16.R9",
     "old": "        for region in self.regions:\n            resolved_cap = region.resolve_cap(url, consume=False)",
     "new": "        for region in self.regions[:1]:\n            resolved_cap = region.resolve_cap(url, consume=False)"},
    {"name": "P R9 regions iterated over a snapshot", "file": SESS, "expect": "silent",
     "old": "        for region in self.regions:\n            resolved_cap = region.resolve_cap(url, consume=False)",
     "new": "        for region in tuple(self.regions):\n            resolved_cap = region.resolve_cap(url, consume=False)"},
    # ---- round 5 mechanisms
    {"name": "R2 cap_urls view built through dict()", "file": REG, "expect": "C16.R2",
     "old": "multidict.MultiDict((x, y[1]) for x, y in self.caps.items())",
     "new": "multidict.MultiDict(dict((x, y[1]) for x, y in self.caps.items()))"},
    {"name": "P R2 cap_urls view built from a list of pairs", "file": REG, "expect": "silent",
     "old": "multidict.MultiDict((x, y[1]) for x, y in self.caps.items())",
     "new": "multidict.MultiDict([(cap_name, cap_url) for cap_name, (_cap_type, cap_url) in self.caps.items()])"},
    {"name": "P R2 add() iterates a star-unpacked tuple", "file": REG, "expect": "silent",
     "old": "        vals = [value] + self.popall(key, [])\n        for val in vals:",
     "new": "        for val in (value, *self.popall(key, [])):"},
    # ---- round 6 mechanisms
    {"name": "R5 recorded names fetched before the region learns the grants", "file": HEM, "expect": "C16.R5",
     "old": "                region.update_caps(parsed)\n",
     "new": "                recorded = flow.metadata['needed_proxy_caps']\n                region.update_caps(parsed)\n"
            "                LOG.debug('%d proxy-only caps to present', len(recorded))\n"},
    {"name": "P R5 recorded names bound to an annotated local after update_caps", "expect": "silent", "edits": [
        {"file": HEM, "old": "                region.update_caps(parsed)\n",
         "new": "                region.update_caps(parsed)\n                recorded: List[str] = flow.metadata['needed_proxy_caps']\n"},
        {"file": HEM, "old": "                for cap_name in flow.metadata['needed_proxy_caps']:", "new": "                for cap_name in recorded:"}]},
    # ---- round 7 mechanisms
    {"name": "R2 caps client gets a plain dict built from caps.items()", "file": CLIENT, "expect": "C16.R2",
     "old": "        return self._region.cap_urls", "new": "        return dict((n, v[1]) for n, v in self._region.caps.items())"},
    {"name": "P R2 caps client gets a dict of the first (newest) URL per name", "file": CLIENT, "expect": "silent",
     "old": "        return self._region.cap_urls",
     "new": "        return {name: self._region.caps[name][1] for name in self._region.caps.keys()}"},
    {"name": "R4 CapsMultiDict.extend routed through the prepending add", "file": REG, "expect": "C16.R4",
     "old": "\n\nclass ProxiedRegion(BaseClientRegion):",
     "new": "\n    def extend(self, *args, **kwargs) -> None:\n        for k, v in multidict.MultiDict(*args, **kwargs).items():\n"
            "            self.add(k, v)\n\n\nclass ProxiedRegion(BaseClientRegion):"},
    {"name": "P R4 CapsMultiDict.extend routed through add, oldest first", "file": REG, "expect": "silent",
     "old": "\n\nclass ProxiedRegion(BaseClientRegion):",
     "new": "\n    def extend(self, *args, **kwargs) -> None:\n        for k, v in reversed(list(multidict.MultiDict(*args, **kwargs).items())):\n"
            "            self.add(k, v)\n\n\nclass ProxiedRegion(BaseClientRegion):"},
    {"name": "R10 a cap is wrapped that is_asset_server_cap_name does not cover", "file": HEM, "expect": "C16.R10",
     "old": 'wrappable_caps = {"GetMesh2", "GetMesh", "GetTexture", "ViewerAsset"}',
     "new": 'wrappable_caps = {"GetMesh2", "GetMesh", "GetTexture", "ViewerAsset", "FetchInventory2"}'},
    {"name": "R10 asset cap names matched exactly (GetMesh2 no longer covered)", "file": CAPS, "expect": "C16.R10",
     "old": '    return cap_name and (\n        cap_name.startswith("GetMesh")\n        or cap_name.startswith("GetTexture")\n'
            '        or cap_name.startswith("ViewerAsset")\n    )',
     "new": '    return cap_name in ("GetMesh", "GetTexture", "ViewerAsset")'},
    {"name": "P R10 asset cap prefixes as one tuple", "file": CAPS, "expect": "silent",
     "old": '    return cap_name and (\n        cap_name.startswith("GetMesh")\n        or cap_name.startswith("GetTexture")\n'
            '        or cap_name.startswith("ViewerAsset")\n    )',
     "new": '    return bool(cap_name) and cap_name.startswith(("GetMesh", "GetTexture", "ViewerAsset"))'},
    {"name": "R3 rebuild guarded by a computed condition instead of a set flag", "file": REG, "expect": "C16.R3",
     "old": "                self.caps.add(cap_name, (CapType.NORMAL, cap_url))\n                self._recalc_caps()",
     "new": "                self.caps.add(cap_name, (CapType.NORMAL, cap_url))\n                dirty = cap_name == 'Seed'\n"
            "                if dirty:\n                    self._recalc_caps()"},
    {"name": "P R3 rebuild once after the loop under a dirty flag", "file": REG, "expect": "silent",
     "old": "        for cap_name, cap_url in caps.items():\n            if isinstance(cap_url, str) and cap_url.startswith('http'):\n"
            "                self.caps.add(cap_name, (CapType.NORMAL, cap_url))\n                self._recalc_caps()",
     "new": "        dirty = False\n        for cap_name, cap_url in caps.items():\n            if isinstance(cap_url, str) and cap_url.startswith('http'):\n"
            "                self.caps.add(cap_name, (CapType.NORMAL, cap_url))\n                dirty = True\n"
            "        if dirty:\n            self._recalc_caps()"},
    # ---- round 8 mechanisms
    {"name": "R2 register_region swallows a Seed that is known but not the newest", "file": STATE, "expect": "C16.R2",
     "old": '                if seed_url and region.cap_urls.get("Seed") != seed_url:',
     "new": '                if seed_url and seed_url not in region.cap_urls.getall("Seed", []):'},
    {"name": "P R2 register_region compares with the newest Seed through a local", "file": STATE, "expect": "silent",
     "old": '                if seed_url and region.cap_urls.get("Seed") != seed_url:\n                    region.update_caps({"Seed": seed_url})',
     "new": '                if not seed_url:\n                    pass\n                elif region.cap_urls["Seed"] != seed_url:\n'
            '                    region.update_caps({"Seed": seed_url})'},
    {"name": "R9 manager remembers URLs that did not resolve", "expect": "C16.R9", "edits": [
        {"file": SESS, "old": "        best_session, best = None, None\n        for session in self.sessions:",
         "new": "        if url in self.addon_ctx.get('unresolved', ()):\n            return CapData()\n"
                "        best_session, best = None, None\n        for session in self.sessions:"}]},
    {"name": "P R9 manager returns early when it has no sessions", "file": SESS, "expect": "silent",
     "old": "        best_session, best = None, None\n        for session in self.sessions:",
     "new": "        if not self.sessions:\n            return CapData()\n        best_session, best = None, None\n        for session in self.sessions:"},
    {"name": "R11 webapp addon hook answers with the registered URL", "file": WEBAPP, "expect": "C16.R11",
     "old": "        # response that gets sent back to the client if that cap name was requested.\n        region.register_proxy_cap(self.CAP_NAME)",
     "new": "        # response that gets sent back to the client if that cap name was requested.\n        url = region.register_proxy_cap(self.CAP_NAME)\n        return url"},
    {"name": "P R11 webapp addon hook logs the registered URL", "file": WEBAPP, "expect": "silent",
     "old": "        # response that gets sent back to the client if that cap name was requested.\n        region.register_proxy_cap(self.CAP_NAME)",
     "new": "        # response that gets sent back to the client if that cap name was requested.\n        url = region.register_proxy_cap(self.CAP_NAME)\n"
            "        logging.debug('mounted %s at %s', self.CAP_NAME, url)\n        return None"},
    # ---- audit round (anchored on the fixed text: inapplicable until the fixes are committed)
    {"name": "R12 region resolves to the first hit in index order again (reverts audit fix C16#1)", "file": REG, "expect": "C16.R12",
     "old": "        for cap_url in sorted(self._caps_url_lookup.keys(), key=len, reverse=True):",
     "new": "        for cap_url in self._caps_url_lookup.keys():"},
    {"name": "R12 manager asks every session with consumption on", "file": SESS, "expect": "C16.R12",
     "old": "            cap_data = session.resolve_cap(url, consume=False)", "new": "            cap_data = session.resolve_cap(url)"},
    {"name": "P R12 region orders the index by negated length", "file": REG, "expect": "silent",
     "old": "        for cap_url in sorted(self._caps_url_lookup.keys(), key=len, reverse=True):",
     "new": "        for cap_url in sorted(self._caps_url_lookup.keys(), key=lambda granted: -len(granted)):"},
    {"name": "R6 wrapper host hashed from the last Seed path segment again (reverts audit fix C16#2)", "file": REG, "expect": "C16.R6",
     "old": '        seed_id = self.caps["Seed"][1].encode("utf8")', "new": '        seed_id = self.caps["Seed"][1].split("/")[-1].encode("utf8")'},
    {"name": "P R6 whole Seed URL digested before it is hashed into the host", "file": REG, "expect": "silent",
     "old": '        seed_id = self.caps["Seed"][1].encode("utf8")',
     "new": '        seed_id = hashlib.md5(self.caps["Seed"][1].encode("utf8")).digest()[:8]'},
    {"name": "R5 recorded names get the newest URL of their name again (reverts audit fix C16#3)", "file": HEM, "expect": "C16.R5",
     "old": "parsed[cap_name] = region.proxy_cap_url(cap_name)", "new": "parsed[cap_name] = region.cap_urls[cap_name]"},
    {"name": "R12 register_proxy_cap inspects the newest entry only again", "file": REG, "expect": "C16.R12",
     "old": "        existing_url = self.proxy_cap_url(name)\n        if existing_url:\n            return existing_url\n",
     "new": "        if name in self.caps and self.caps[name][0] == CapType.PROXY_ONLY:\n            return self.caps[name][1]\n"},
    {"name": "P R5 recorded names re-added through the idempotent registration", "file": HEM, "expect": "silent",
     "old": "parsed[cap_name] = region.proxy_cap_url(cap_name)", "new": "parsed[cap_name] = region.register_proxy_cap(cap_name)"},
    {"name": "R5 only the first occurrence of a proxy-only name is stripped (reverts audit fix C16#5)", "file": HEM, "expect": "C16.R5",
     "old": "                    while known_cap_name in parsed_seed:\n                        parsed_seed.remove(known_cap_name)\n",
     "new": "                    parsed_seed.remove(known_cap_name)\n"},
    {"name": "P R5 occurrences stripped in a loop that also logs", "file": HEM, "expect": "silent",
     "old": "                    while known_cap_name in parsed_seed:\n                        parsed_seed.remove(known_cap_name)\n",
     "new": "                    while known_cap_name in parsed_seed:\n                        LOG.debug('stripping %s', known_cap_name)\n"
            "                        parsed_seed.remove(known_cap_name)\n"},
    # ---- round 9 mechanisms
    {"name": "R2 add() keeps only the newest few URLs of a name", "file": REG, "expect": "C16.R2",
     "old": "        vals = [value] + self.popall(key, [])\n", "new": "        vals = ([value] + self.popall(key, []))[:8]\n"},
    {"name": "R2 caps client asks for the last URL granted under a name", "file": "hippolyzer/lib/base/network/caps_client.py", "expect": "C16.R2",
     "old": "            cap_or_url = caps[cap_or_url]", "new": "            cap_or_url = caps.getall(cap_or_url)[-1]"},
    {"name": "P R2 caps client asks for the first URL through getall", "file": "hippolyzer/lib/base/network/caps_client.py", "expect": "silent",
     "old": "            cap_or_url = caps[cap_or_url]", "new": "            cap_or_url = caps.getall(cap_or_url)[0]"},
    # ---- documented limits
    {"name": "X only https URLs are tracked (validity filter is value-level)", "file": REG, "expect": "miss",
     "old": "cap_url.startswith('http')", "new": "cap_url.startswith('https')"},
    {"name": "X wrapper host truncated to 2 hex digits (collisions are value-level)", "file": REG, "expect": "miss",
     "old": "hashlib.sha256(seed_id).hexdigest()[:16]", "new": "hashlib.sha256(seed_id).hexdigest()[:2]"},
    {"name": "X equal-length ties between tables keep table order (value-level)", "file": SESS, "expect": "miss",
     "old": "len(resolved_cap[1]) > best_len:", "new": "len(resolved_cap[1]) >= best_len:"},
]
