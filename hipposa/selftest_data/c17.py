"""Self-test corpus for C17: text edits on a scratch overlay (never on /repo)."""
HEM = "hippolyzer/lib/proxy/http_event_manager.py"
REG = "hippolyzer/lib/proxy/region.py"
STATE = "hippolyzer/lib/client/state.py"
SESS = "hippolyzer/lib/proxy/sessions.py"
MSG = "hippolyzer/lib/base/message/message.py"
ADDONS = "hippolyzer/lib/proxy/addons.py"
CAPS = "hippolyzer/lib/proxy/caps.py"
LLSD = "hippolyzer/lib/base/llsd.py"

_FILTER = (
    "                    new_events = []\n"
    "                    for event in old_events:\n"
    "                        if not self._handle_eq_event(cap_data.session(), region, event):\n"
    "                            new_events.append(event)\n"
)
_MERGE = "                    new_events.extend(eq_manager.take_injected_events())\n"
_UNDEF = (
    "                    # Empty event list is an error, need to return undef instead.\n"
    "                    if old_events and not new_events:\n"
    "                        parsed_eq_resp = None\n"
)
_CACHE = (
    "                    # HACK: see note in above request handler for EventQueueGet\n"
    "                    req_ack_id = llsd.parse_xml(flow.request.content)[\"ack\"]\n"
    "                    eq_manager.cache_last_poll_response(req_ack_id, parsed_eq_resp, cap_data.base_url)\n"
)
_EQ_BRANCH = (
    "                parsed_eq_resp = llsd.parse_xml(flow.response.content)\n"
    "                if parsed_eq_resp:\n"
    "                    old_events = parsed_eq_resp[\"events\"]\n"
    + _FILTER +
    "                    # Add on any fake events that've been queued by addons\n"
    "                    eq_manager = cap_data.region().eq_manager\n"
    + _MERGE +
    "                    parsed_eq_resp[\"events\"] = new_events\n"
    + _UNDEF + _CACHE +
    "                flow.response.content = llsd.format_xml(parsed_eq_resp)\n"
)
_EQ_HELPER = (
    "    def _rewrite_eq_response(self, the_flow, caps, the_region):\n"
    "        body = llsd.parse_xml(the_flow.response.content)\n"
    "        if body:\n"
    "            from_sim = body[\"events\"]\n"
    "            outgoing = []\n"
    "            for ev in from_sim:\n"
    "                if not self._handle_eq_event(caps.session(), the_region, ev):\n"
    "                    outgoing.append(ev)\n"
    "            manager = caps.region().eq_manager\n"
    "            outgoing.extend(manager.take_injected_events())\n"
    "            body[\"events\"] = outgoing\n"
    "            if from_sim and not outgoing:\n"
    "                body = None\n"
    "            ack = llsd.parse_xml(the_flow.request.content)[\"ack\"]\n"
    "            manager.cache_last_poll_response(ack, body, caps.base_url)\n"
    "        the_flow.response.content = llsd.format_xml(body)\n"
    "\n"
)
_TAKE = "        events = self._queued_events\n        self._queued_events = []\n"
_REGISTER_TAIL = (
    "        if sim_addr is not None:\n"
    "            session.register_region(sim_addr, handle=sim_handle, seed_url=sim_seed)\n"
    "        return False\n"
)

_SEARCH_LOOP = (
    "        for region in self.regions:\n"
    "            if region.circuit_addr == circuit_addr:\n"
    "                if seed_url and region.cap_urls.get(\"Seed\") != seed_url:\n"
    "                    region.update_caps({\"Seed\": seed_url})\n"
    "                if handle:\n"
    "                    region.handle = handle\n"
    "                return region\n"
    "            if seed_url and region.cap_urls.get(\"Seed\") == seed_url:\n"
    "                return region\n"
)

_B1_FIXED = (
    "                        try:\n"
    "                            swallowed = self._handle_eq_event(cap_data.session(), region, event)\n"
    "                        except Exception:\n"
    "                            # An event we can't make sense of must not take the rest of the\n"
    "                            # response down with it, the viewer gets that one event as-is.\n"
    "                            LOG.exception(\"Failed to handle EQ event, passing it through untouched\")\n"
    "                            swallowed = False\n"
    "                        if not swallowed:\n"
    "                            new_events.append(event)\n"
)
_B2_FIXED = (
    "                    # Serialize before remembering the response, something we can't\n"
    "                    # even write out must never end up in the replay cache.\n"
    "                    flow.response.content = llsd.format_xml(parsed_eq_resp)\n"
    "                    eq_manager.cache_last_poll_response(req_ack_id, parsed_eq_resp, cap_data.base_url)\n"
    "                else:\n"
    "                    flow.response.content = llsd.format_xml(parsed_eq_resp)\n"
)
_EQ_BRANCH_FX = (
    "                parsed_eq_resp = llsd.parse_xml(flow.response.content)\n"
    "                if parsed_eq_resp:\n"
    "                    old_events = parsed_eq_resp[\"events\"]\n"
    "                    new_events = []\n"
    "                    for event in old_events:\n"
    + _B1_FIXED +
    "                    # Add on any fake events that've been queued by addons\n"
    "                    eq_manager = cap_data.region().eq_manager\n"
    + _MERGE +
    "                    parsed_eq_resp[\"events\"] = new_events\n"
    + _UNDEF +
    "                    # HACK: see note in above request handler for EventQueueGet\n"
    "                    req_ack_id = llsd.parse_xml(flow.request.content)[\"ack\"]\n"
    + _B2_FIXED
)
_EQ_HELPER_FX = (
    "    def _rewrite_eq_response(self, the_flow, caps, the_region):\n"
    "        body = llsd.parse_xml(the_flow.response.content)\n"
    "        if body:\n"
    "            from_sim = body[\"events\"]\n"
    "            outgoing = []\n"
    "            for ev in from_sim:\n"
    "                try:\n"
    "                    gone = self._handle_eq_event(caps.session(), the_region, ev)\n"
    "                except Exception:\n"
    "                    LOG.exception(\"EQ event not handled\")\n"
    "                    gone = False\n"
    "                if not gone:\n"
    "                    outgoing.append(ev)\n"
    "            manager = caps.region().eq_manager\n"
    "            outgoing.extend(manager.take_injected_events())\n"
    "            body[\"events\"] = outgoing\n"
    "            if from_sim and not outgoing:\n"
    "                body = None\n"
    "            ack = llsd.parse_xml(the_flow.request.content)[\"ack\"]\n"
    "            the_flow.response.content = llsd.format_xml(body)\n"
    "            manager.cache_last_poll_response(ack, body, caps.base_url)\n"
    "        else:\n"
    "            the_flow.response.content = llsd.format_xml(body)\n"
    "\n"
)
_B3_TAIL = (
    "        handle_event = AddonManager.handle_eq_event(session, region, event)\n"
    "        # True: addon handled the event and didn't want it sent to the viewer\n"
    "        return handle_event is True\n"
)

LLSDSER = "hippolyzer/lib/base/message/llsd_msg_serializer.py"
_C21_FIXED = (
    "            if tmpl_var.type in _BINARY_PACKED and not isinstance(val, bytes):\n"
    "                # Only the <binary> form needs unpacking. Other implementations (OpenSim) write\n"
    "                # the values that fit as plain LLSD integers / strings, those are usable as-is.\n"
    "                continue\n"
    "            block[tmpl_var.name] = LLSDDataPacker.unpack(val, tmpl_var.type)\n"
)

VARIANTS = [
    # ---- R1 filter loop
    {"name": "R1 kept events inserted at the head", "file": HEM, "expect": "C17.R1",
     "old": "                            new_events.append(event)\n", "new": "                            new_events.insert(0, event)\n"},
    {"name": "R1 events visited in reverse", "file": HEM, "expect": "C17.R1",
     "old": "                    for event in old_events:\n", "new": "                    for event in reversed(old_events):\n"},
    {"name": "R1 outgoing list sorted after the merge", "file": HEM, "expect": "C17.R1",
     "old": "                    parsed_eq_resp[\"events\"] = new_events\n",
     "new": "                    parsed_eq_resp[\"events\"] = new_events\n                    new_events.sort(key=str)\n"},
    {"name": "R1 filtered list never stored into the response", "file": HEM, "expect": "C17.R1",
     "old": "                    parsed_eq_resp[\"events\"] = new_events\n", "new": ""},
    # ---- R2 injected events
    {"name": "R2 take_injected_events returns without clearing", "file": REG, "expect": "C17.R2",
     "old": _TAKE, "new": "        events = self._queued_events\n"},
    {"name": "R2 take_injected_events clears the list it returns", "file": REG, "expect": "C17.R2",
     "old": _TAKE, "new": "        events = self._queued_events\n        self._queued_events.clear()\n"},
    {"name": "R2 injected events put in front of the simulator's", "file": HEM, "expect": "C17.R2",
     "old": _MERGE, "new": "                    new_events = eq_manager.take_injected_events() + new_events\n"},
    {"name": "R2 merge only when simulator events survive", "file": HEM, "expect": "C17.R2",
     "old": _MERGE, "new": "                    if new_events:\n    " + _MERGE},
    {"name": "R2 second consumer of the injection queue", "file": REG, "expect": "C17.R2",
     "old": "        super().mark_dead()\n        self.eq_manager.clear()\n",
     "new": "        super().mark_dead()\n        self.eq_manager.take_injected_events()\n        self.eq_manager.clear()\n"},
    {"name": "R2 inject_event queues only with a live region", "file": REG, "expect": "C17.R2",
     "old": "        self._queued_events.append(event)\n        if self._region:\n",
     "new": "        if self._region:\n            self._queued_events.append(event)\n"},
    {"name": "R2 taken events dropped on one path", "file": HEM, "expect": "C17.R2",
     "old": _MERGE,
     "new": "                    injected = eq_manager.take_injected_events()\n"
            "                    if old_events:\n"
            "                        new_events.extend(injected)\n"},
    {"name": "P R2 only logging between draining and merging", "file": HEM, "expect": "silent",
     "old": _MERGE,
     "new": "                    pending = eq_manager.take_injected_events()\n"
            "                    LOG.debug(\"Merging %d injected events\", len(pending))\n"
            "                    new_events.extend(pending)\n"},
    {"name": "P R2 copy-and-clear form of take_injected_events", "file": REG, "expect": "silent",
     "old": _TAKE, "new": "        events = list(self._queued_events)\n        self._queued_events.clear()\n"},
    {"name": "P R2 merge through a local and +=", "file": HEM, "expect": "silent",
     "old": _MERGE,
     "new": "                    injected = eq_manager.take_injected_events()\n                    new_events += injected\n"},
    # ---- R3 undef-on-empty and replay cache
    {"name": "R3 emptiness decided before the injection merge (seed 1)", "file": HEM, "expect": "C17.R3",
     "edits": [
         {"file": HEM, "old": "                    # Add on any fake events that've been queued by addons\n",
          "new": "                    all_swallowed = bool(old_events) and not new_events\n"
                 "                    # Add on any fake events that've been queued by addons\n"},
         {"file": HEM, "old": "                    if old_events and not new_events:\n", "new": "                    if all_swallowed:\n"},
     ]},
    {"name": "R3 cache refuses the undef ack (seed 2)", "file": REG, "expect": "C17.R3",
     "old": "        if self._last_ack == (eq_url, req_ack):\n", "new": "        if req_ack is not None and self._last_ack == (eq_url, req_ack):\n"},
    {"name": "R3 cache keyed by the response id", "file": HEM, "expect": "C17.R3",
     "old": "                    req_ack_id = llsd.parse_xml(flow.request.content)[\"ack\"]\n",
     "new": "                    req_ack_id = llsd.parse_xml(flow.response.content)[\"id\"]\n"},
    {"name": "R3 undef replacement removed", "file": HEM, "expect": "C17.R3",
     "old": "                    if old_events and not new_events:\n                        parsed_eq_resp = None\n", "new": ""},
    {"name": "R3 undef replacement ignores the outgoing list", "file": HEM, "expect": "C17.R3",
     "old": "                    if old_events and not new_events:\n", "new": "                    if old_events:\n"},
    {"name": "R3 cache fields swapped", "file": REG, "expect": "C17.R3",
     "old": "        self._last_ack = (eq_url, req_ack)\n        self._last_payload = payload\n",
     "new": "        self._last_ack = (eq_url, payload)\n        self._last_payload = req_ack\n"},
    {"name": "R3 replay cache written from the request handler", "file": HEM, "expect": "C17.R3",
     "old": "            cached_resp = eq_manager.get_cached_poll_response(req_ack_id, cap_data.base_url)\n",
     "new": "            cached_resp = eq_manager.get_cached_poll_response(req_ack_id, cap_data.base_url)\n            eq_manager._last_ack = None\n"},
    {"name": "R3 cached payload other than the serialised object", "file": HEM, "expect": "C17.R3",
     "old": "eq_manager.cache_last_poll_response(req_ack_id, parsed_eq_resp, cap_data.base_url)",
     "new": "eq_manager.cache_last_poll_response(req_ack_id, {\"events\": new_events}, cap_data.base_url)"},
    {"name": "P R3 emptiness flag computed after the merge", "file": HEM, "expect": "silent",
     "old": "                    if old_events and not new_events:\n",
     "new": "                    all_swallowed = bool(old_events) and not new_events\n                    if all_swallowed:\n"},
    {"name": "P R3 early-return form of the cache lookup", "file": REG, "expect": "silent",
     "old": "        if self._last_ack == (eq_url, req_ack):\n            return self._last_payload\n        return None\n",
     "new": "        if self._last_ack != (eq_url, req_ack):\n            return None\n        return self._last_payload\n"},
    {"name": "P R3 undef responses not cached (request side ignores them anyway)", "file": HEM, "expect": "silent",
     "old": "                    eq_manager.cache_last_poll_response(req_ack_id, parsed_eq_resp, cap_data.base_url)\n",
     "new": "                    if parsed_eq_resp is not None:\n"
            "                        eq_manager.cache_last_poll_response(req_ack_id, parsed_eq_resp, cap_data.base_url)\n"},
    # ---- R4 region registration
    {"name": "R4 found region falls through to append", "file": STATE, "expect": "C17.R4",
     "old": "                if handle:\n                    region.handle = handle\n                return region\n",
     "new": "                if handle:\n                    region.handle = handle\n"},
    {"name": "R4 region appended before the search loop", "file": STATE, "expect": "C17.R4",
     "old": "        for region in self.regions:\n            if region.circuit_addr == circuit_addr:\n                if seed_url and",
     "new": "        self.regions.append(self.REGION_CLS(circuit_addr, seed_url, self, handle=handle))\n"
            "        for region in self.regions:\n            if region.circuit_addr == circuit_addr:\n                if seed_url and"},
    {"name": "R4 regions grown outside register_region", "file": SESS, "expect": "C17.R4",
     "old": "        AddonManager.handle_region_registered(self, region)\n",
     "new": "        self.regions.append(region)\n        AddonManager.handle_region_registered(self, region)\n"},
    {"name": "R4 address match only counts for regions with a circuit", "file": STATE, "expect": "C17.R4",
     "old": "            if region.circuit_addr == circuit_addr:\n                if seed_url and",
     "new": "            if region.circuit_addr == circuit_addr and region.circuit:\n                if seed_url and"},
    {"name": "R4 handle-less regions skipped by the search", "file": STATE, "expect": "C17.R4",
     "old": "            if region.circuit_addr == circuit_addr:\n                if seed_url and",
     "new": "            if not region.handle:\n                continue\n"
            "            if region.circuit_addr == circuit_addr:\n                if seed_url and"},
    {"name": "P R4 address comparison hoisted into a local", "file": STATE, "expect": "silent",
     "old": "            if region.circuit_addr == circuit_addr:\n                if seed_url and",
     "new": "            same_sim = region.circuit_addr == circuit_addr\n            if same_sim:\n                if seed_url and"},
    # ---- round 3: teardown, foreign event bodies
    {"name": "R3 mark_dead clears the event queue manager only on one path", "file": REG, "expect": "C17.R3",
     "old": "        super().mark_dead()\n        self.eq_manager.clear()\n",
     "new": "        super().mark_dead()\n        if self.circuit:\n            self.eq_manager.clear()\n"},
    {"name": "R3 EventQueueManager.clear keeps the cached payload", "file": REG, "expect": "C17.R3",
     "old": "        self._last_ack = None\n        self._last_payload = None\n", "new": "        self._last_ack = None\n"},
    {"name": "P R3 event queue manager cleared before the base teardown", "file": REG, "expect": "silent",
     "old": "        super().mark_dead()\n        self.eq_manager.clear()\n",
     "new": "        self.eq_manager.clear()\n        super().mark_dead()\n"},
    {"name": "R1 from_eq_event expands any truthy body as keywords", "file": MSG, "expect": "C17.R1",
     "old": "        if isinstance(event[\"body\"], dict):\n", "new": "        if event[\"body\"]:\n"},
    {"name": "P R1 from_eq_event with the body in a local", "file": MSG, "expect": "silent",
     "old": "        if isinstance(event[\"body\"], dict):\n            msg.add_block(Block(\"EventData\", **event[\"body\"]))\n",
     "new": "        payload = event[\"body\"]\n        if isinstance(payload, dict):\n"
            "            msg.add_block(Block(\"EventData\", **payload))\n"},
    # ---- round 4: template agreement of the region-announcing reads
    {"name": "R4 field name that the selected block does not have", "file": HEM, "expect": "C17.R4",
     "old": "            sim_handle = sim_block[\"RegionHandle\"]\n", "new": "            sim_handle = sim_block[\"Handle\"]\n"},
    {"name": "R4 EnableSimulator read from a block the message does not have", "file": HEM, "expect": "C17.R4",
     "old": "msg[\"SimulatorInfo\"][0]", "new": "msg[\"SimulatorData\"][0]"},
    {"name": "P R4 EnableSimulator block fetched through get_block under another name", "file": HEM, "expect": "silent",
     "old": "            sim_block = msg[\"SimulatorInfo\"][0]\n            sim_addr = (sim_block[\"IP\"], sim_block[\"Port\"])\n"
            "            sim_handle = sim_block[\"Handle\"]\n",
     "new": "            info = msg.get_block(\"SimulatorInfo\")[0]\n            sim_addr = (info[\"IP\"], info[\"Port\"])\n"
            "            sim_handle = info[\"Handle\"]\n"},
    # ---- round 5: declarative regressions
    {"name": "R1 EQ handlers format with the upstream llsd package", "file": HEM, "expect": "C17.R1",
     "old": "from hippolyzer.lib.base import llsd\n", "new": "import llsd\n"},
    {"name": "P R1 hippolyzer llsd imported by its dotted name", "file": HEM, "expect": "silent",
     "old": "from hippolyzer.lib.base import llsd\n", "new": "import hippolyzer.lib.base.llsd as llsd\n"},
    {"name": "R1 Block's name parameter bindable by a wire key", "file": MSG, "expect": "C17.R1",
     "old": "    def __init__(self, name, /, *, fill_missing=False, **kwargs):",
     "new": "    def __init__(self, name, *, fill_missing=False, **kwargs):"},
    {"name": "P R1 Block's positional-only parameter renamed", "file": MSG, "expect": "silent",
     "old": "    def __init__(self, name, /, *, fill_missing=False, **kwargs):\n        self.name = name\n",
     "new": "    def __init__(self, block_name, /, *, fill_missing=False, **kwargs):\n        self.name = block_name\n"},
    {"name": "R4 generator search skips matches without a circuit", "file": STATE, "expect": "C17.R4",
     "old": _SEARCH_LOOP,
     "new": "        known = next((r for r in self.regions\n"
            "                      if (r.circuit_addr == circuit_addr and r.circuit)\n"
            "                      or (seed_url and r.cap_urls.get(\"Seed\") == seed_url)), None)\n"
            "        if known is not None:\n"
            "            if known.circuit_addr == circuit_addr:\n"
            "                if seed_url and known.cap_urls.get(\"Seed\") != seed_url:\n"
            "                    known.update_caps({\"Seed\": seed_url})\n"
            "                if handle:\n"
            "                    known.handle = handle\n"
            "            return known\n"},
    {"name": "P R4 generator search with a plain address disjunct", "file": STATE, "expect": "silent",
     "old": _SEARCH_LOOP,
     "new": "        known = next((r for r in self.regions\n"
            "                      if r.circuit_addr == circuit_addr\n"
            "                      or (seed_url and r.cap_urls.get(\"Seed\") == seed_url)), None)\n"
            "        if known is not None:\n"
            "            if known.circuit_addr == circuit_addr:\n"
            "                if seed_url and known.cap_urls.get(\"Seed\") != seed_url:\n"
            "                    known.update_caps({\"Seed\": seed_url})\n"
            "                if handle:\n"
            "                    known.handle = handle\n"
            "            return known\n"},
    # ---- round 6
    {"name": "R2 inject_event resolves the session before queueing", "file": REG, "expect": "C17.R2",
     "old": "        self._queued_events.append(event)\n        if self._region:\n",
     "new": "        owner = self._region.session()\n        self._queued_events.append(event)\n        if self._region and owner:\n"},
    {"name": "P R2 inject_event counts the backlog before queueing", "file": REG, "expect": "silent",
     "old": "        self._queued_events.append(event)\n        if self._region:\n",
     "new": "        backlog = len(self._queued_events)\n        self._queued_events.append(event)\n        if self._region and backlog >= 0:\n"},
    # ---- round 7
    {"name": "R1 module hook dispatch coerces the verdict to True", "file": ADDONS, "expect": "C17.R1",
     "old": "            if ret:\n                return ret\n        return cls._try_call_hook(module",
     "new": "            if ret:\n                return True\n        return cls._try_call_hook(module"},
    {"name": "P R1 module hook dispatch with a renamed local", "file": ADDONS, "expect": "silent",
     "old": "            ret = cls._try_call_hook(addon, hook_name, *args, call_async=call_async, **kwargs)\n"
            "            if ret:\n                return ret\n",
     "new": "            verdict = cls._try_call_hook(addon, hook_name, *args, call_async=call_async, **kwargs)\n"
            "            if verdict:\n                return verdict\n"},
    {"name": "R4 registration prunes dead regions from the session", "file": SESS, "expect": "C17.R4",
     "old": "        AddonManager.handle_region_registered(self, region)\n",
     "new": "        self.regions[:] = [r for r in self.regions if r.circuit is None or r.circuit.is_alive]\n"
            "        AddonManager.handle_region_registered(self, region)\n"},
    {"name": "P R4 registration only counts the dead regions", "file": SESS, "expect": "silent",
     "old": "        AddonManager.handle_region_registered(self, region)\n",
     "new": "        dead = [r for r in self.regions if r.circuit is not None and not r.circuit.is_alive]\n"
            "        logging.debug(\"%d dead regions\", len(dead))\n"
            "        AddonManager.handle_region_registered(self, region)\n"},
    {"name": "X cap data attributed through a lookup that needs a live circuit (CapData.deserialize)", "file": CAPS, "expect": "miss",
     "old": "            for region in cap_session.regions:\n                if ser_cap_data.region_addr == str(region.circuit_addr):\n"
            "                    cap_region = region\n",
     "new": "            cap_region = next((r for r in cap_session.regions if r.circuit\n"
            "                               and ser_cap_data.region_addr == str(r.circuit_addr)), None)\n"},
    # ---- round 8
    {"name": "R3 registering a cap resets the event queue manager", "file": REG, "expect": "C17.R3",
     "old": "        self.caps.add(name, (cap_type, cap_url))\n        self._recalc_caps()\n",
     "new": "        self.caps.add(name, (cap_type, cap_url))\n        self._recalc_caps()\n"
            "        if name == \"EventQueueGet\":\n            self.eq_manager.clear()\n"},
    {"name": "P R3 teardown clears the event queue manager through a helper only it calls", "expect": "silent",
     "edits": [
         {"file": REG, "old": "        super().mark_dead()\n        self.eq_manager.clear()\n",
          "new": "        super().mark_dead()\n        self._drop_event_queue_state()\n"},
         {"file": REG, "old": "    def mark_dead(self):\n",
          "new": "    def _drop_event_queue_state(self):\n        self.eq_manager.clear()\n\n    def mark_dead(self):\n"},
     ]},
    {"name": "R1 parse_xml answers undef for bodies it cannot parse", "file": LLSD, "expect": "C17.R1",
     "old": "def parse_xml(data: bytes):\n    return base_llsd.parse_xml(data)\n",
     "new": "def parse_xml(data: bytes):\n    try:\n        return base_llsd.parse_xml(data)\n"
            "    except Exception:\n        return None\n"},
    {"name": "P R1 parse_xml annotates and re-raises parse errors", "file": LLSD, "expect": "silent",
     "old": "def parse_xml(data: bytes):\n    return base_llsd.parse_xml(data)\n",
     "new": "def parse_xml(data: bytes):\n    try:\n        return base_llsd.parse_xml(data)\n"
            "    except Exception as e:\n        raise ValueError(f\"bad LLSD+XML: {e}\") from e\n"},
    {"name": "P R2 take_injected_events as a tuple swap", "file": REG, "expect": "silent",
     "old": _TAKE, "new": "        events, self._queued_events = self._queued_events, []\n"},
    # ---- audit round: reverts of the fixes (inapplicable until the fix is committed) and their twins
    {"name": "R1 per-event try removed (fix reverted)", "file": HEM, "expect": "C17.R1",
     "old": _B1_FIXED,
     "new": "                        if not self._handle_eq_event(cap_data.session(), region, event):\n"
            "                            new_events.append(event)\n"},
    {"name": "P R1 per-event try with other names", "file": HEM, "expect": "silent",
     "old": _B1_FIXED,
     "new": "                        try:\n"
            "                            verdict = self._handle_eq_event(cap_data.session(), region, event)\n"
            "                        except Exception as exc:\n"
            "                            LOG.exception(\"EQ event %r not handled: %s\", event.get(\"message\"), exc)\n"
            "                            verdict = False\n"
            "                        if verdict:\n"
            "                            continue\n"
            "                        new_events.append(event)\n"},
    {"name": "R2 inject_event no longer validates the event (fix reverted)", "file": REG, "expect": "C17.R2",
     "old": "        llsd.format_xml(event)\n        self._queued_events.append(event)\n",
     "new": "        self._queued_events.append(event)\n"},
    {"name": "P R2 inject_event keeps the serialised form in a local", "file": REG, "expect": "silent",
     "old": "        llsd.format_xml(event)\n        self._queued_events.append(event)\n",
     "new": "        probe = llsd.format_xml(event)\n        del probe\n        self._queued_events.append(event)\n"},
    {"name": "R3 response cached before it is serialised (fix reverted)", "file": HEM, "expect": "C17.R3",
     "old": _B2_FIXED,
     "new": "                    eq_manager.cache_last_poll_response(req_ack_id, parsed_eq_resp, cap_data.base_url)\n"
            "                flow.response.content = llsd.format_xml(parsed_eq_resp)\n"},
    {"name": "P R3 serialised body held in a local until it is cached", "file": HEM, "expect": "silent",
     "old": _B2_FIXED,
     "new": "                    body = llsd.format_xml(parsed_eq_resp)\n"
            "                    eq_manager.cache_last_poll_response(req_ack_id, parsed_eq_resp, cap_data.base_url)\n"
            "                    flow.response.content = body\n"
            "                else:\n"
            "                    flow.response.content = llsd.format_xml(parsed_eq_resp)\n"},
    {"name": "R4 addons asked before the region registration (fix reverted)", "expect": "C17.R4",
     "edits": [
         {"file": HEM, "old": "        sim_addr, sim_handle, sim_seed = None, None, None\n",
          "new": "        if AddonManager.handle_eq_event(session, region, event) is True:\n            return True\n"
                 "        sim_addr, sim_handle, sim_seed = None, None, None\n"},
         {"file": HEM, "old": _B3_TAIL, "new": "        return False\n"},
     ]},
    {"name": "P R4 verdict returned through an if after the registration", "file": HEM, "expect": "silent",
     "old": _B3_TAIL,
     "new": "        handle_event = AddonManager.handle_eq_event(session, region, event)\n"
            "        if handle_event is True:\n            return True\n        return False\n"},
    # ---- the round-1..8 variants whose anchor text the audit fixes change, re-anchored on the fixed text
    {"name": "R1 extra filter condition drops events", "file": HEM, "expect": "C17.R1",
     "old": "                        if not swallowed:\n",
     "new": "                        if not swallowed and event[\"message\"] != \"PlacesReply\":\n"},
    {"name": "R1 filter polarity flipped", "file": HEM, "expect": "C17.R1",
     "old": "                        if not swallowed:\n", "new": "                        if swallowed:\n"},
    {"name": "R1 _handle_eq_event reports every event swallowed", "file": HEM, "expect": "C17.R1",
     "old": "        return handle_event is True\n", "new": "        return True\n"},
    {"name": "R1 any truthy hook result swallows", "file": HEM, "expect": "C17.R1",
     "old": "        return handle_event is True\n", "new": "        return bool(handle_event)\n"},
    {"name": "R1 filter as a comprehension loses the per-event isolation", "file": HEM, "expect": "C17.R1",
     "old": "                    new_events = []\n                    for event in old_events:\n" + _B1_FIXED,
     "new": "                    new_events = [event for event in old_events\n"
            "                                  if not self._handle_eq_event(cap_data.session(), region, event)]\n"},
    {"name": "P R2 queue drained before the (now fault-isolated) filter loop", "expect": "silent",
     "edits": [
         {"file": HEM, "old": "                    new_events = []\n                    for event in old_events:\n" + _B1_FIXED,
          "new": "                    pending = cap_data.region().eq_manager.take_injected_events()\n"
                 "                    new_events = []\n                    for event in old_events:\n" + _B1_FIXED},
         {"file": HEM, "old": _MERGE, "new": "                    new_events.extend(pending)\n"},
     ]},
    {"name": "R3 undef replacement after the response was serialised and cached", "file": HEM, "expect": "C17.R3",
     "old": _UNDEF + "                    # HACK: see note in above request handler for EventQueueGet\n"
            "                    req_ack_id = llsd.parse_xml(flow.request.content)[\"ack\"]\n" + _B2_FIXED,
     "new": "                    # HACK: see note in above request handler for EventQueueGet\n"
            "                    req_ack_id = llsd.parse_xml(flow.request.content)[\"ack\"]\n"
            "                    flow.response.content = llsd.format_xml(parsed_eq_resp)\n"
            "                    eq_manager.cache_last_poll_response(req_ack_id, parsed_eq_resp, cap_data.base_url)\n"
            + _UNDEF +
            "                else:\n                    flow.response.content = llsd.format_xml(parsed_eq_resp)\n"},
    {"name": "R4 register_region called for every event", "file": HEM, "expect": "C17.R4",
     "old": "        if sim_addr is not None:\n            session.register_region(",
     "new": "        if sim_addr is not None or sim_seed is None:\n            session.register_region("},
    {"name": "P R4 registration guard with the empty branch first", "file": HEM, "expect": "silent",
     "old": "        if sim_addr is not None:\n            session.register_region(sim_addr, handle=sim_handle, seed_url=sim_seed)\n",
     "new": "        if sim_addr is None:\n            pass\n        else:\n"
            "            session.register_region(sim_addr, handle=sim_handle, seed_url=sim_seed)\n"},
    {"name": "P R1-R3 EventQueueGet branch extracted into a helper with other local names", "expect": "silent",
     "edits": [
         {"file": HEM, "old": _EQ_BRANCH_FX, "new": "                self._rewrite_eq_response(flow, cap_data, region)\n"},
         {"file": HEM, "old": "    def _handle_login_flow(self, flow: HippoHTTPFlow):\n",
          "new": _EQ_HELPER_FX + "    def _handle_login_flow(self, flow: HippoHTTPFlow):\n"},
     ]},
    # ---- audit round 2 (reverts are inapplicable until the fix is committed)
    {"name": "R1 deserialize unpacks whatever form the value has (audit-2 fix reverted)", "file": LLSDSER, "expect": "C17.R1",
     "old": _C21_FIXED, "new": "            block[tmpl_var.name] = LLSDDataPacker.unpack(val, tmpl_var.type)\n"},
    {"name": "P R1 deserialize unpacks under the positive isinstance test", "file": LLSDSER, "expect": "silent",
     "old": _C21_FIXED,
     "new": "            if tmpl_var.type not in _BINARY_PACKED or isinstance(val, bytes):\n"
            "                block[tmpl_var.name] = LLSDDataPacker.unpack(val, tmpl_var.type)\n"},
    {"name": "R3 replay cache keyed by the ack alone (audit-2 fix reverted)", "expect": "C17.R3",
     "edits": [
         {"file": REG, "old": "        self._last_ack = (eq_url, req_ack)\n", "new": "        self._last_ack = req_ack\n"},
         {"file": REG, "old": "        if self._last_ack == (eq_url, req_ack):\n", "new": "        if self._last_ack == req_ack:\n"},
     ]},
    {"name": "R3 lookup side does not say which queue is polled", "file": HEM, "expect": "C17.R3",
     "old": "eq_manager.get_cached_poll_response(req_ack_id, cap_data.base_url)",
     "new": "eq_manager.get_cached_poll_response(req_ack_id)"},
    {"name": "P R3 queue url first, keyword arguments at the call sites", "expect": "silent",
     "edits": [
         {"file": HEM, "old": "eq_manager.get_cached_poll_response(req_ack_id, cap_data.base_url)",
          "new": "eq_manager.get_cached_poll_response(req_ack_id, eq_url=cap_data.base_url)"},
         {"file": HEM, "old": "eq_manager.cache_last_poll_response(req_ack_id, parsed_eq_resp, cap_data.base_url)",
          "new": "eq_manager.cache_last_poll_response(req_ack_id, parsed_eq_resp, eq_url=cap_data.base_url)"},
     ]},
    # ---- documented limit
]
