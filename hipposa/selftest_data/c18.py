"""Self-test corpus for C18: exact-text edits on a scratch overlay (never on /repo)."""
FILT = "hippolyzer/lib/proxy/message_filter.py"
LOGR = "hippolyzer/lib/proxy/message_logger.py"
MSG = "hippolyzer/lib/base/message/message.py"
DTYPES = "hippolyzer/lib/base/datatypes.py"
LLSDF = "hippolyzer/lib/base/llsd.py"

_TRY_OLD = '''        try:
            if not operator:
                return bool(val)
            elif operator == "==":
                return val == expected
            elif operator == "!=":
                return val != expected
            elif operator == "^=":
                if val is None:
                    return False
                return val.startswith(expected)
            elif operator == "$=":
                if val is None:
                    return False
                return val.endswith(expected)
            elif operator == "~=":
                if val is None:
                    return False
                try:
                    return expected in val
                except ValueError:
                    # An int that isn't a byte value can't be contained in bytes
                    return False
'''
_TRY_NEW_D16 = '''        if not operator:
            return bool(val)
        elif operator == "==":
            return val == expected
        elif operator == "!=":
            return val != expected
        elif operator == "^=":
            if val is None:
                return False
            return val.startswith(expected)
        elif operator == "$=":
            if val is None:
                return False
            return val.endswith(expected)
        elif operator == "~=":
            if val is None:
                return False
            try:
                return expected in val
            except ValueError:
                return False
        try:
            if operator is None:
                return False
'''

VARIANTS = [
    # ---- R1 breaking
    {"name": "R1 '>' listed before '>=' again (D15)", "file": FILT, "expect": "C18.R1",
     "old": '">=", ">", "<=", "<"', "new": '">", ">=", "<", "<="'},
    {"name": "R1 '=' alternative shadows '=='", "file": FILT, "expect": "C18.R1",
     "old": '["==", "!=", "^=",', "new": '["=", "==", "!=", "^=",'},
    {"name": "R1 '|' alternative shadows '||'", "file": FILT, "expect": "C18.R1",
     "old": '["||", "&&"]', "new": '["|", "||", "&&"]'},
    # ---- R1 preserving
    {"name": "P R1 reorder non-prefix alternatives", "file": FILT, "expect": "silent",
     "old": '["==", "!=", "^=", "$=", "~=",', "new": '["!=", "==", "~=", "^=", "$=",'},
    {"name": "P R1 boolean connectives reordered", "file": FILT, "expect": "silent",
     "old": '["||", "&&"]', "new": '["&&", "||"]'},
    # ---- R2 breaking
    {"name": "R2 operator in grammar without evaluator branch", "file": FILT, "expect": "C18.R2",
     "old": '"<", "&"]', "new": '"<", "&", "%="]'},
    {"name": "R2 evaluator branch renamed away from the grammar token", "file": LOGR, "expect": "C18.R2",
     "old": 'elif operator == "~=":', "new": 'elif operator == "*=":'},
    {"name": "R2 '<' branch applies '>'", "file": LOGR, "expect": "C18.R2",
     "old": "return val < expected", "new": "return val > expected"},
    {"name": "R2 '~=' tests containment the wrong way round", "file": LOGR, "expect": "C18.R2",
     "old": "return expected in val", "new": "return val in expected"},
    {"name": "R2 '&&' builds an OrFilterNode", "file": FILT, "expect": "C18.R2",
     "old": "return AndFilterNode(children[0], children[2])", "new": "return OrFilterNode(children[0], children[2])"},
    {"name": "R2 '!' prefix ignored by the visitor", "file": FILT, "expect": "C18.R2",
     "old": "            return UnaryNotFilterNode(children[1])", "new": "            return children[1]"},
    {"name": "R2 '==' evaluated with identity", "file": LOGR, "expect": "C18.R2",
     "old": "return val == expected", "new": "return val is expected"},
    # ---- R2 preserving
    {"name": "P R2 '!=' written as not ==", "file": LOGR, "expect": "silent",
     "old": "return val != expected", "new": "return not (val == expected)"},
    {"name": "P R2 mirrored comparison", "file": LOGR, "expect": "silent",
     "old": "return val >= expected", "new": "return expected <= val"},
    {"name": "P R2 visitor uses a local for the connective", "file": FILT, "expect": "silent",
     "old": '''            if children[1] == "&&":
                return AndFilterNode(children[0], children[2])
            elif children[1] == "||":
                return OrFilterNode(children[0], children[2])
            else:
                raise ValueError(f"Unrecognized operator {children[1]}")''',
     "new": '''            connective = children[1]
            if connective == "||":
                return OrFilterNode(children[0], children[2])
            if connective != "&&":
                raise ValueError(f"Unrecognized operator {connective}")
            return AndFilterNode(children[0], children[2])'''},
    # ---- R3 breaking
    {"name": "R3 Or full evaluation decided from merged fields (seed 1)", "file": FILT, "expect": "C18.R3",
     "old": '''        if left_match or right_match:
            # Fine since fields should be empty when result=False
            return MatchResult(True, left_match.fields + right_match.fields)
        return MatchResult(False, [])''',
     "new": '''        fields = left_match.fields + right_match.fields
        return MatchResult(bool(fields), fields)'''},
    {"name": "R3 Or returns the left operand only", "file": FILT, "expect": "C18.R3",
     "old": '''        if left_match or right_match:
            # Fine''', "new": '''        if left_match:
            # Fine'''},
    {"name": "R3 Not without not", "file": FILT, "expect": "C18.R3",
     "old": "return MatchResult(not self.node.match(msg, short_circuit), [])",
     "new": "return MatchResult(bool(self.node.match(msg, short_circuit)), [])"},
    {"name": "R3 And behaves like or", "file": FILT, "expect": "C18.R3",
     "old": '''        if not left_match:
            return MatchResult(False, [])
        right_match = self.right_node.match(msg, short_circuit)
        if not right_match:
            return MatchResult(False, [])''',
     "new": '''        right_match = self.right_node.match(msg, short_circuit)
        if not left_match and not right_match:
            return MatchResult(False, [])'''},
    {"name": "R3 Or short-circuit returns on a false left operand", "file": FILT, "expect": "C18.R3",
     "old": "        if left_match and short_circuit:", "new": "        if left_match or short_circuit:"},
    {"name": "R3 MatchResult loses its __bool__", "file": FILT, "expect": "C18.R3",
     "old": "    def __bool__(self):\n        return self.result\n\n\nclass BaseFilterNode", "new": "class BaseFilterNode"},
    # ---- R3 preserving
    {"name": "P R3 And as a single conditional expression", "file": FILT, "expect": "silent",
     "old": '''        if not right_match:
            return MatchResult(False, [])
        return MatchResult(True, left_match.fields + right_match.fields)''',
     "new": '''        return MatchResult(True, left_match.fields + right_match.fields) if right_match else MatchResult(False, [])'''},
    {"name": "P R3 Or with nested ifs and renamed locals", "file": FILT, "expect": "silent",
     "old": '''        left_match = self.left_node.match(msg, short_circuit)
        if left_match and short_circuit:
            return MatchResult(True, left_match.fields)

        right_match = self.right_node.match(msg, short_circuit)
        if right_match and short_circuit:
            return MatchResult(True, right_match.fields)

        if left_match or right_match:
            # Fine since fields should be empty when result=False
            return MatchResult(True, left_match.fields + right_match.fields)
        return MatchResult(False, [])''',
     "new": '''        lhs = self.left_node.match(msg, short_circuit)
        if short_circuit:
            if lhs:
                return MatchResult(True, lhs.fields)
        rhs = self.right_node.match(msg, short_circuit)
        if short_circuit and rhs:
            return MatchResult(True, rhs.fields)
        matched = bool(lhs) or bool(rhs)
        if not matched:
            return MatchResult(False, [])
        return MatchResult(matched, lhs.fields + rhs.fields)'''},
    # ---- R4 breaking
    {"name": "R4 prefix/suffix/contains operators outside the guard (D16)", "file": LOGR, "expect": "C18.R4",
     "old": _TRY_OLD, "new": _TRY_NEW_D16},
    {"name": "R4 handler only catches ValueError", "file": LOGR, "expect": "C18.R4",
     "old": "        except (TypeError, AttributeError):\n            # The comparison", "new": "        except ValueError:\n            # The comparison"},
    {"name": "R4 handler re-raises", "file": LOGR, "expect": "C18.R4",
     "old": "            # The comparison can't be applied to a value of this type, so it doesn't match.\n            return False",
     "new": "            # The comparison can't be applied to a value of this type, so it doesn't match.\n            raise"},
    {"name": "R4 handler drops AttributeError", "file": LOGR, "expect": "C18.R4",
     "old": "        except (TypeError, AttributeError):\n            # The comparison", "new": "        except TypeError:\n            # The comparison"},
    {"name": "R4 handler answers True", "file": LOGR, "expect": "C18.R4",
     "old": "            # The comparison can't be applied to a value of this type, so it doesn't match.\n            return False",
     "new": "            # The comparison can't be applied to a value of this type, so it doesn't match.\n            return True"},
    {"name": "R4 non-bool result reaches MatchResult", "file": LOGR, "expect": "C18.R4",
     "old": "return MatchResult(bool(found_field_keys), found_field_keys)", "new": "return MatchResult(len(found_field_keys), found_field_keys)"},
    {"name": "R4 '&' branch returns the raw int again (reverts fix: Meta.X & n raises)", "file": LOGR, "expect": "C18.R4",
     "old": "return bool(val & expected)", "new": "return val & expected"},
    # ---- R4 preserving
    {"name": "P R4 handler tuple order", "file": LOGR, "expect": "silent",
     "old": "        except (TypeError, AttributeError):\n            # The comparison", "new": "        except (AttributeError, TypeError):\n            # The comparison"},
    {"name": "P R4 catch-all handler with logging", "file": LOGR, "expect": "silent",
     "old": "        except (TypeError, AttributeError):\n            # The comparison can't be applied to a value of this type, so it doesn't match.\n            return False",
     "new": "        except Exception as exc:\n            LOG.debug('inapplicable comparison: %r', exc)\n            return False"},
    {"name": "P R4 two separate handlers", "file": LOGR, "expect": "silent",
     "old": "        except (TypeError, AttributeError):\n            # The comparison can't be applied to a value of this type, so it doesn't match.\n            return False",
     "new": "        except TypeError:\n            return False\n        except AttributeError:\n            return False"},
    # ---- R5 breaking
    {"name": "R5 pause guard removed from add_log_entry (seed 2)", "file": LOGR, "expect": "C18.R5",
     "old": "            # Paused, throw it away.\n            if self.paused:\n                return False\n            self._raw_entries.append(entry)",
     "new": "            self._raw_entries.append(entry)"},
    {"name": "R5 view append before the filter is consulted", "file": LOGR, "expect": "C18.R5",
     "old": '''            if self.filter.match(entry):
                next_idx = len(self._filtered_entries)
                self._begin_insert(next_idx)
                self._filtered_entries.append(entry)
                self._end_insert()
                return True''',
     "new": '''            next_idx = len(self._filtered_entries)
            self._begin_insert(next_idx)
            self._filtered_entries.append(entry)
            self._end_insert()
            if self.filter.match(entry):
                return True'''},
    {"name": "R5 newest entry inserted at the front of the view", "file": LOGR, "expect": "C18.R5",
     "old": "                self._filtered_entries.append(entry)", "new": "                self._filtered_entries.insert(0, entry)"},
    {"name": "R5 raw append only for matching entries, after the view append", "file": LOGR, "expect": "C18.R5",
     "old": '''            self._raw_entries.append(entry)
            if self.filter.match(entry):
                next_idx = len(self._filtered_entries)
                self._begin_insert(next_idx)
                self._filtered_entries.append(entry)
                self._end_insert()
                return True''',
     "new": '''            if self.filter.match(entry):
                next_idx = len(self._filtered_entries)
                self._begin_insert(next_idx)
                self._filtered_entries.append(entry)
                self._end_insert()
                self._raw_entries.append(entry)
                return True
            self._raw_entries.append(entry)'''},
    {"name": "R5 set_filter keeps retained entries twice", "file": LOGR, "expect": "C18.R5",
     "old": "            m not in self._raw_entries and self.filter.match(m)", "new": "            self.filter.match(m)"},
    {"name": "R5 set_filter re-adds raw entries unfiltered", "file": LOGR, "expect": "C18.R5",
     "old": "self._filtered_entries.extend((m for m in self._raw_entries if self.filter.match(m)))",
     "new": "self._filtered_entries.extend((m for m in self._raw_entries))"},
    {"name": "R5 set_filter filters with the previous filter", "expect": "C18.R5", "edits": [
        {"file": LOGR, "old": "        self.filter = compile_filter(filter_str)\n        self._begin_reset()",
         "new": "        self._begin_reset()"},
        {"file": LOGR, "old": "        self._end_reset()\n\n    def set_paused",
         "new": "        self.filter = compile_filter(filter_str)\n        self._end_reset()\n\n    def set_paused"}]},
    {"name": "R5 clear leaves the raw buffer", "file": LOGR, "expect": "C18.R5",
     "old": "        self._filtered_entries.clear()\n        self._raw_entries.clear()\n", "new": "        self._filtered_entries.clear()\n"},
    {"name": "R5 view mutated by a non-owner", "file": LOGR, "expect": "C18.R5",
     "old": "    def set_paused(self, paused: bool):\n        self.paused = paused\n",
     "new": "    def set_paused(self, paused: bool):\n        self.paused = paused\n        if paused:\n            self._filtered_entries.clear()\n"},
    # ---- R5 preserving
    {"name": "P R5 nested if instead of early return for the pause guard", "file": LOGR, "expect": "silent",
     "old": '''            if self.paused:
                return False
            self._raw_entries.append(entry)
            if self.filter.match(entry):
                next_idx = len(self._filtered_entries)
                self._begin_insert(next_idx)
                self._filtered_entries.append(entry)
                self._end_insert()
                return True''',
     "new": '''            if not self.paused:
                self._raw_entries.append(entry)
                matched = self.filter.match(entry)
                if matched and self.filter.match(entry):
                    view_len = len(self._filtered_entries)
                    self._begin_insert(view_len)
                    self._filtered_entries.append(entry)
                    self._end_insert()
                    return True'''},
    {"name": "P R5 set_filter rebuild as an explicit loop", "file": LOGR, "expect": "silent",
     "old": "        self._filtered_entries.extend((m for m in self._raw_entries if self.filter.match(m)))",
     "new": "        for retained in self._raw_entries:\n            if not self.filter.match(retained):\n                continue\n"
            "            self._filtered_entries.append(retained)"},
    {"name": "P R5 clear order swapped", "file": LOGR, "expect": "silent",
     "old": "        self._filtered_entries.clear()\n        self._raw_entries.clear()\n",
     "new": "        self._raw_entries.clear()\n        self._filtered_entries.clear()\n"},
    # ---- R6 breaking
    {"name": "R6 apply_dict reads 'agentid'", "file": LOGR, "expect": "C18.R6",
     "old": "self._agent_id = UUID(val['agent_id']) if val['agent_id'] else None",
     "new": "self._agent_id = UUID(val['agentid']) if val['agentid'] else None"},
    {"name": "R6 to_dict stops exporting the summary", "file": LOGR, "expect": "C18.R6",
     "old": '            "summary": self.summary,\n', "new": ""},
    {"name": "R6 SessionID not re-hydrated", "file": LOGR, "expect": "C18.R6",
     "old": '        _hydrate_meta_uuid("SessionID")\n', "new": ""},
    {"name": "R6 _TYPE_CLASSES rows crossed", "file": LOGR, "expect": "C18.R6",
     "old": '    "HTTP": HTTPMessageLogEntry,\n    "LLUDP": LLUDPMessageLogEntry,', "new": '    "HTTP": LLUDPMessageLogEntry,\n    "LLUDP": HTTPMessageLogEntry,'},
    {"name": "R6 EQ entry missing from _TYPE_CLASSES", "file": LOGR, "expect": "C18.R6",
     "old": '    "EQ": EQMessageLogEntry,\n', "new": '    "EQ": LLUDPMessageLogEntry,\n'},
    {"name": "R6 EQ from_dict reads another key", "file": LOGR, "expect": "C18.R6",
     "old": "ev = cls(llsd.parse_notation(val['event']), None, None)", "new": "ev = cls(llsd.parse_notation(val['body']), None, None)"},
    {"name": "R6 LLUDP export not extended", "file": LOGR, "expect": "C18.R6",
     "old": "self.message.to_dict(extended=True)", "new": "self.message.to_dict()"},
    {"name": "R6 Message.from_dict drops acks", "file": MSG, "expect": "C18.R6",
     "old": "            msg.acks = dict_val['acks']\n", "new": ""},
    {"name": "R6 Message.from_dict crosses dropped/synthetic", "file": MSG, "expect": "C18.R6",
     "old": "msg.dropped = dict_val['dropped']\n            msg.synthetic = dict_val['synthetic']",
     "new": "msg.dropped = dict_val['synthetic']\n            msg.synthetic = dict_val['dropped']"},
    {"name": "R6 Message.to_dict renames a key", "file": MSG, "expect": "C18.R6",
     "old": '"send_flags": int(self.send_flags),', "new": '"flags": int(self.send_flags),'},
    {"name": "R6 LLUDP from_dict parses XML instead of notation", "file": LOGR, "expect": "C18.R6",
     "old": "ev = cls(Message.from_dict(llsd.parse_notation(val['message'])), None, None)",
     "new": "ev = cls(Message.from_dict(llsd.parse_xml(val['message'])), None, None)"},
    # ---- R6 preserving
    {"name": "P R6 reorder exported keys", "file": LOGR, "expect": "silent",
     "old": '            "type": self.type,\n            "region_name": self.region_name,\n',
     "new": '            "region_name": self.region_name,\n            "type": self.type,\n'},
    {"name": "P R6 from_dict renames its local", "file": LOGR, "expect": "silent",
     "old": "        ev = cls(llsd.parse_notation(val['event']), None, None)\n        ev.apply_dict(val)\n        return ev",
     "new": "        entry = cls(llsd.parse_notation(val['event']), None, None)\n        entry.apply_dict(val)\n        return entry"},
    {"name": "P R6 Message.from_dict assignment order", "file": MSG, "expect": "silent",
     "old": "            msg.extra = dict_val['extra']\n            msg.acks = dict_val['acks']\n",
     "new": "            msg.acks = dict_val['acks']\n            msg.extra = dict_val['extra']\n"},
    # ---- dispatch tables (R2 / R4 follow a dict of callables indexed by the operator)
    {"name": "R4 '&' moved into a dispatch table row returning the raw int", "expect": "C18.R4", "edits": [
        {"file": LOGR, "old": "class BaseMessageLogger:\n", "new": "_BIT_OPS = {\"&\": lambda field, wanted: field & wanted}\n\n\nclass BaseMessageLogger:\n"},
        {"file": LOGR, "old": "            elif operator == \"&\":\n                return bool(val & expected)",
         "new": "            elif operator in _BIT_OPS:\n                return _BIT_OPS[operator](val, expected)"}]},
    {"name": "R2 dispatch table row for '&' applies |", "expect": "C18.R2", "edits": [
        {"file": LOGR, "old": "class BaseMessageLogger:\n", "new": "_BIT_OPS = {\"&\": lambda field, wanted: bool(field | wanted)}\n\n\nclass BaseMessageLogger:\n"},
        {"file": LOGR, "old": "            elif operator == \"&\":\n                return bool(val & expected)",
         "new": "            elif operator in _BIT_OPS:\n                return _BIT_OPS[operator](val, expected)"}]},
    {"name": "R4 dispatch through a table outside the try", "expect": "C18.R4", "edits": [
        {"file": LOGR, "old": "class BaseMessageLogger:\n", "new": "_ORDER_OPS = {\"<\": lambda field, wanted: field < wanted}\n\n\nclass BaseMessageLogger:\n"},
        {"file": LOGR, "old": "        try:\n            if not operator:\n                return bool(val)",
         "new": "        if operator in _ORDER_OPS:\n            return _ORDER_OPS[operator](val, expected)\n        try:\n            if not operator:\n                return bool(val)"},
        {"file": LOGR, "old": "            elif operator == \"<\":\n                return val < expected\n", "new": ""}]},
    {"name": "P '&' moved into a dispatch table row", "expect": "silent", "edits": [
        {"file": LOGR, "old": "class BaseMessageLogger:\n", "new": "_BIT_OPS = {\"&\": lambda field, wanted: bool(field & wanted)}\n\n\nclass BaseMessageLogger:\n"},
        {"file": LOGR, "old": "            elif operator == \"&\":\n                return bool(val & expected)",
         "new": "            elif operator in _BIT_OPS:\n                compare = _BIT_OPS[operator]\n                return compare(val, expected)"}]},
    # ---- R7 breaking
    {"name": "R7 subfield loop stops at the first key whose name matches", "file": LOGR, "expect": "C18.R7",
     "old": "                                elif self._val_matches(matcher.operator, deserialized[key], matcher.value):\n"
            "                                    found_field_keys.append(field_key)\n                                    break",
     "new": "                                elif self._val_matches(matcher.operator, deserialized[key], matcher.value):\n"
            "                                    found_field_keys.append(field_key)\n                                break"},
    {"name": "R7 short-circuit return after the first examined variable", "file": LOGR, "expect": "C18.R7",
     "old": "                    if short_circuit and found_field_keys:", "new": "                    if short_circuit:"},
    {"name": "R7 field recorded without a comparison", "file": LOGR, "expect": "C18.R7",
     "old": "                        elif self._val_matches(matcher.operator, block[var_name], matcher.value):\n                            found_field_keys.append(field_key)",
     "new": "                        else:\n                            found_field_keys.append(field_key)"},
    # ---- R7 preserving
    {"name": "P R7 subfield test folded into one condition, break kept under it", "file": LOGR, "expect": "silent",
     "old": "                                if matcher.value is None:\n"
            "                                    # Short-circuiting checking individual subfields is fine since\n"
            "                                    # we only highlight fields anyway.\n"
            "                                    found_field_keys.append(field_key)\n"
            "                                    break\n"
            "                                elif self._val_matches(matcher.operator, deserialized[key], matcher.value):\n"
            "                                    found_field_keys.append(field_key)\n"
            "                                    break",
     "new": "                                if matcher.value is None or \\\n"
            "                                        self._val_matches(matcher.operator, deserialized[key], matcher.value):\n"
            "                                    found_field_keys.append(field_key)\n"
            "                                    break"},
    # ---- R6 block lists
    {"name": "R6 from_dict creates block lists only when they have entries", "file": MSG, "expect": "C18.R6",
     "old": "            msg.create_block_list(block_type)\n            for block in blocks:",
     "new": "            if blocks:\n                msg.create_block_list(block_type)\n            for block in blocks:"},
    {"name": "P R6 from_dict creates the list by item assignment", "file": MSG, "expect": "silent",
     "old": "            msg.create_block_list(block_type)\n            for block in blocks:",
     "new": "            msg.blocks[block_type] = []\n            for block in blocks:"},
    # ---- round 3 mechanisms
    {"name": "R4 TupleCoord.__lt__ raises ValueError on a length mismatch", "file": DTYPES, "expect": "C18.R4",
     "old": "            raise TypeError(f\"Can't order {self!r} against {other!r}\")",
     "new": "            raise ValueError(f\"Can't order {self!r} against {other!r}\")"},
    {"name": "P R4 strict zip in TupleCoord with ValueError added to the filter's handler", "expect": "silent", "edits": [
        {"file": DTYPES, "old": "            raise TypeError(f\"Can't order {self!r} against {other!r}\")",
         "new": "            raise ValueError(f\"Can't order {self!r} against {other!r}\")"},
        {"file": LOGR, "old": "        except (TypeError, AttributeError):\n            # The comparison",
         "new": "        except (TypeError, AttributeError, ValueError):\n            # The comparison"}]},
    {"name": "R2 flat expression chain folded with the operator at a fixed position", "expect": "C18.R2", "edits": [
        {"file": FILT, "old": 'return term, ZeroOrMore(["||", "&&"], expression)', "new": 'return term, ZeroOrMore(["||", "&&"], term)'},
        {"file": FILT, "old": "            if children[1] == \"&&\":\n                return AndFilterNode(children[0], children[2])\n"
                              "            elif children[1] == \"||\":\n                return OrFilterNode(children[0], children[2])\n",
         "new": "            if children[1] == \"&&\":\n                return functools.reduce(AndFilterNode, children[::2])\n"
                "            elif children[1] == \"||\":\n                return functools.reduce(OrFilterNode, children[::2])\n"}]},
    {"name": "P R2 flat expression chain folded operator by operator", "expect": "silent", "edits": [
        {"file": FILT, "old": 'return term, ZeroOrMore(["||", "&&"], expression)', "new": 'return term, ZeroOrMore(["||", "&&"], term)'},
        {"file": FILT, "old": "            if children[1] == \"&&\":\n                return AndFilterNode(children[0], children[2])\n"
                              "            elif children[1] == \"||\":\n                return OrFilterNode(children[0], children[2])\n"
                              "            else:\n                raise ValueError(f\"Unrecognized operator {children[1]}\")\n",
         "new": "            node = children[-1]\n            for idx in range(len(children) - 2, 0, -2):\n"
                "                if children[idx] == \"&&\":\n                    node = AndFilterNode(children[idx - 1], node)\n"
                "                elif children[idx] == \"||\":\n                    node = OrFilterNode(children[idx - 1], node)\n"
                "                else:\n                    raise ValueError(f\"Unrecognized operator {children[idx]}\")\n"
                "            return node\n"}]},
    {"name": "P R2 visitor picks the class into a local first", "file": FILT, "expect": "silent",
     "old": "            if children[1] == \"&&\":\n                return AndFilterNode(children[0], children[2])\n"
            "            elif children[1] == \"||\":\n                return OrFilterNode(children[0], children[2])\n"
            "            else:\n                raise ValueError(f\"Unrecognized operator {children[1]}\")\n",
     "new": "            if children[1] == \"&&\":\n                node_cls = AndFilterNode\n"
            "            elif children[1] == \"||\":\n                node_cls = OrFilterNode\n"
            "            else:\n                raise ValueError(f\"Unrecognized operator {children[1]}\")\n"
            "            return node_cls(children[0], children[2])\n"},
    {"name": "R2 visitor's class-valued local crossed", "file": FILT, "expect": "C18.R2",
     "old": "            if children[1] == \"&&\":\n                return AndFilterNode(children[0], children[2])\n"
            "            elif children[1] == \"||\":\n                return OrFilterNode(children[0], children[2])\n"
            "            else:\n                raise ValueError(f\"Unrecognized operator {children[1]}\")\n",
     "new": "            if children[1] == \"&&\":\n                node_cls = OrFilterNode\n"
            "            elif children[1] == \"||\":\n                node_cls = AndFilterNode\n"
            "            else:\n                raise ValueError(f\"Unrecognized operator {children[1]}\")\n"
            "            return node_cls(children[0], children[2])\n"},
    {"name": "R3 Or split into helpers, full evaluation helper forgets the right operand", "file": FILT, "expect": "C18.R3",
     "old": "        if left_match or right_match:\n            # Fine since fields should be empty when result=False\n"
            "            return MatchResult(True, left_match.fields + right_match.fields)\n        return MatchResult(False, [])",
     "new": "        return self._merge(left_match, left_match)\n\n    def _merge(self, first, second):\n"
            "        if first or second:\n            return MatchResult(True, first.fields + second.fields)\n        return MatchResult(False, [])"},
    {"name": "P R3 Or tail extracted into a helper method", "file": FILT, "expect": "silent",
     "old": "        if left_match or right_match:\n            # Fine since fields should be empty when result=False\n"
            "            return MatchResult(True, left_match.fields + right_match.fields)\n        return MatchResult(False, [])",
     "new": "        return self._merge(left_match, right_match)\n\n    def _merge(self, first, second):\n"
            "        if first or second:\n            return MatchResult(True, first.fields + second.fields)\n        return MatchResult(False, [])"},
    {"name": "R5 view-append helper also called from a non-owner", "expect": "C18.R5", "edits": [
        {"file": LOGR, "old": "                next_idx = len(self._filtered_entries)\n                self._begin_insert(next_idx)\n"
                              "                self._filtered_entries.append(entry)\n                self._end_insert()\n",
         "new": "                self._show(entry)\n"},
        {"file": LOGR, "old": "    def set_paused(self, paused: bool):\n        self.paused = paused\n",
         "new": "    def set_paused(self, paused: bool):\n        self.paused = paused\n        self._show(None)\n\n"
                "    def _show(self, entry):\n        next_idx = len(self._filtered_entries)\n        self._begin_insert(next_idx)\n"
                "        self._filtered_entries.append(entry)\n        self._end_insert()\n"}]},
    {"name": "R5 extracted filter predicate ignores the filter", "expect": "C18.R5", "edits": [
        {"file": LOGR, "old": "            if self.filter.match(entry):\n                next_idx", "new": "            if self._visible(entry):\n                next_idx"},
        {"file": LOGR, "old": "    def set_paused(self, paused: bool):\n        self.paused = paused\n",
         "new": "    def set_paused(self, paused: bool):\n        self.paused = paused\n\n"
                "    def _visible(self, entry):\n        return entry is not None\n"}]},
    # ---- round 4 mechanisms
    {"name": "R8 freeze swallows a pickling failure and still drops the live message", "file": LOGR, "expect": "C18.R8",
     "old": "            self._frozen_message = pickle.dumps(self._message, protocol=pickle.HIGHEST_PROTOCOL)\n        finally:",
     "new": "            self._frozen_message = pickle.dumps(self._message, protocol=pickle.HIGHEST_PROTOCOL)\n"
            "        except Exception:\n            LOG.exception('could not freeze message')\n        finally:"},
    {"name": "R8 live message dropped before it is pickled from the local", "file": LOGR, "expect": "C18.R8",
     "old": "        message.deserializer = None\n        try:\n            self._frozen_message = pickle.dumps(self._message, protocol=pickle.HIGHEST_PROTOCOL)",
     "new": "        message.deserializer = None\n        self._message = None\n        try:\n            self._frozen_message = pickle.dumps(message, protocol=pickle.HIGHEST_PROTOCOL)"},
    {"name": "P R8 pickled into a local, stored and released after the finally", "file": LOGR, "expect": "silent",
     "old": "            self._frozen_message = pickle.dumps(self._message, protocol=pickle.HIGHEST_PROTOCOL)\n        finally:\n"
            "            message.deserializer = deserializer_ref\n        self._message = None",
     "new": "            pickled = pickle.dumps(self._message, protocol=pickle.HIGHEST_PROTOCOL)\n        finally:\n"
            "            message.deserializer = deserializer_ref\n        self._frozen_message = pickled\n        self._message = None"},
    {"name": "R5 filter evaluated before the entry is retained", "file": LOGR, "expect": "C18.R5",
     "old": "            self._raw_entries.append(entry)\n            if self.filter.match(entry):",
     "new": "            visible = self.filter.match(entry)\n            self._raw_entries.append(entry)\n            if visible:"},
    {"name": "P R5 filter verdict kept in a local after retaining the entry", "file": LOGR, "expect": "silent",
     "old": "            self._raw_entries.append(entry)\n            if self.filter.match(entry):",
     "new": "            self._raw_entries.append(entry)\n            visible = self.filter.match(entry)\n            if visible:"},
    # ---- round 5 mechanisms
    {"name": "R10 LLUDP entries compare by message content", "file": LOGR, "expect": "C18.R10",
     "old": "    _MESSAGE_META_ATTRS = {",
     "new": "    def __eq__(self, other):\n        return isinstance(other, LLUDPMessageLogEntry) and self.message == other.message\n\n"
            "    __hash__ = object.__hash__\n\n    _MESSAGE_META_ATTRS = {"},
    {"name": "P R10 entries get an explicit identity __eq__ and a repr", "file": LOGR, "expect": "silent",
     "old": "    _MESSAGE_META_ATTRS = {",
     "new": "    def __eq__(self, other):\n        return self is other\n\n    __hash__ = object.__hash__\n\n"
            "    def __repr__(self):\n        return f'<LLUDP {self.name}>'\n\n    _MESSAGE_META_ATTRS = {"},
    {"name": "R9 Block.__setitem__ only coerces IntEnum members", "file": MSG, "expect": "C18.R9",
     "old": "if isinstance(value, (enum.IntEnum, enum.IntFlag)):", "new": "if isinstance(value, enum.IntEnum):"},
    {"name": "R9 Block.__setitem__ whitelist names the repo's own enum bases", "file": MSG, "expect": "C18.R9",
     "old": "if isinstance(value, (enum.IntEnum, enum.IntFlag)):", "new": "if isinstance(value, (IntEnum, IntFlag)):"},
    {"name": "P R9 whitelist spelled as two isinstance tests", "file": MSG, "expect": "silent",
     "old": "if isinstance(value, (enum.IntEnum, enum.IntFlag)):",
     "new": "if isinstance(value, enum.IntEnum) or isinstance(value, enum.IntFlag):"},
    # ---- round 7 mechanisms
    {"name": "R11 visitor unboxes the literal when it builds the comparison node", "file": FILT, "expect": "C18.R11",
     "old": "return MessageFilterNode(tuple(children[0]), children[1], children[2])",
     "new": "return MessageFilterNode(tuple(children[0]), children[1],\n"
            "                                 children[2].value if isinstance(children[2], LiteralValue) else children[2])"},
    {"name": "P R11 visitor unpacks children into locals", "file": FILT, "expect": "silent",
     "old": "        return MessageFilterNode(tuple(children[0]), children[1], children[2])",
     "new": "        lhs, op, rhs = children\n        return MessageFilterNode(tuple(lhs), op, rhs)"},
    {"name": "R12 notation formatter prints reals with six decimals", "file": LLSDF, "expect": "C18.R12",
     "old": "        return super().STRING(v).replace(b\"\\n\", b\"\\\\n\")\n",
     "new": "        return super().STRING(v).replace(b\"\\n\", b\"\\\\n\")\n\n    def REAL(self, v):\n        return f\"r{v:.6f}\".encode(\"utf8\")\n"},
    {"name": "P R12 notation formatter prints reals with 17 significant digits", "file": LLSDF, "expect": "silent",
     "old": "        return super().STRING(v).replace(b\"\\n\", b\"\\\\n\")\n",
     "new": "        return super().STRING(v).replace(b\"\\n\", b\"\\\\n\")\n\n    def REAL(self, v):\n        return b\"r%.17g\" % v\n"},
    # ---- round 8 mechanisms
    {"name": "R3 And evaluated through a shared operand loop that only stops when short-circuiting", "file": FILT, "expect": "C18.R3",
     "old": "        left_match = self.left_node.match(msg, short_circuit)\n        if not left_match:\n            return MatchResult(False, [])\n"
            "        right_match = self.right_node.match(msg, short_circuit)\n        if not right_match:\n            return MatchResult(False, [])\n"
            "        return MatchResult(True, left_match.fields + right_match.fields)",
     "new": "        seen = []\n        for operand in self.children:\n            outcome = operand.match(msg, short_circuit)\n"
            "            seen.append(outcome)\n            if short_circuit and not outcome:\n                break\n"
            "        if not seen[-1]:\n            return MatchResult(False, [])\n"
            "        return MatchResult(True, [f for o in seen for f in o.fields])"},
    {"name": "P R3 And evaluated through an operand loop that stops at the first failure", "file": FILT, "expect": "silent",
     "old": "        left_match = self.left_node.match(msg, short_circuit)\n        if not left_match:\n            return MatchResult(False, [])\n"
            "        right_match = self.right_node.match(msg, short_circuit)\n        if not right_match:\n            return MatchResult(False, [])\n"
            "        return MatchResult(True, left_match.fields + right_match.fields)",
     "new": "        seen = []\n        for operand in self.children:\n            outcome = operand.match(msg, short_circuit)\n"
            "            seen.append(outcome)\n            if not outcome:\n                return MatchResult(False, [])\n"
            "        merged = []\n        for o in seen:\n            merged.extend(o.fields)\n        return MatchResult(True, merged)"},
    # ---- D38
    {"name": "R4 '~=' containment without the ValueError guard (reverts 649dc22: `300 in bytes` raises out of the filter)",
     "file": LOGR, "expect": "C18.R4",
     "old": "                try:\n                    return expected in val\n                except ValueError:\n"
            "                    # An int that isn't a byte value can't be contained in bytes\n                    return False\n",
     "new": "                return expected in val\n"},
    {"name": "P R4 '~=' containment in a local try catching all three classes", "file": LOGR, "expect": "silent",
     "old": "                try:\n                    return expected in val\n                except ValueError:\n"
            "                    # An int that isn't a byte value can't be contained in bytes\n                    return False\n",
     "new": "                try:\n                    return expected in val\n                except (TypeError, AttributeError, ValueError):\n"
            "                    return False\n"},
    {"name": "P R4 ValueError added to the outer handler instead", "expect": "silent", "edits": [
        {"file": LOGR, "old": "                try:\n                    return expected in val\n                except ValueError:\n"
            "                    # An int that isn't a byte value can't be contained in bytes\n                    return False\n",
         "new": "                return expected in val\n"},
        {"file": LOGR, "old": "        except (TypeError, AttributeError):\n            # The comparison",
         "new": "        except (TypeError, AttributeError, ValueError):\n            # The comparison"}]},
    # ---- D39
    {"name": "R8 entry keeps only the message's weak reference to its deserializer (reverts 93cc314)", "expect": "C18.R8", "edits": [
        {"file": LOGR, "old": "        self._deserializer = message.deserializer() if message.deserializer else None\n",
         "new": "        self._deserializer = None\n"},
        {"file": LOGR, "old": "            if self._deserializer is not None:\n                message.deserializer = weakref.ref(self._deserializer)\n",
         "new": "            message.deserializer = self._deserializer\n"},
        {"file": LOGR, "old": "        deserializer_ref = message.deserializer\n        message.deserializer = None\n",
         "new": "        self._deserializer = self.message.deserializer\n        deserializer_ref = self._deserializer\n        message.deserializer = None\n"}]},
    {"name": "R8 thaw never re-attaches a deserializer", "file": LOGR, "expect": "C18.R8",
     "old": "            if self._deserializer is not None:\n                message.deserializer = weakref.ref(self._deserializer)\n", "new": ""},
    {"name": "P R8 strong reference taken through a helper in __init__ and freeze", "expect": "silent", "edits": [
        {"file": LOGR, "old": "        self._deserializer = message.deserializer() if message.deserializer else None\n",
         "new": "        self._deserializer = self._strong_deserializer(message)\n"},
        {"file": LOGR, "old": "        deserializer_ref = message.deserializer\n        message.deserializer = None\n",
         "new": "        self._deserializer = self._strong_deserializer(message) or self._deserializer\n"
                "        deserializer_ref = message.deserializer\n        message.deserializer = None\n"},
        {"file": LOGR, "old": "    _MESSAGE_META_ATTRS = {",
         "new": "    @staticmethod\n    def _strong_deserializer(message):\n        ref = message.deserializer\n"
                "        return ref() if ref else None\n\n    _MESSAGE_META_ATTRS = {"}]},
    # ---- audit round (anchored on the fixed text: inapplicable until the fixes are committed)
    {"name": "R14 TupleCoord loses its __ne__ (reverts audit fix C18#1)", "file": DTYPES, "expect": "C18.R14",
     "old": "    def __ne__(self, other):\n        # The recordclass base brings its own __ne__, which knows nothing of the __eq__ above\n"
            "        return not self.__eq__(other)\n\n", "new": ""},
    {"name": "P R14 __ne__ spelled through ==", "file": DTYPES, "expect": "silent",
     "old": "        # The recordclass base brings its own __ne__, which knows nothing of the __eq__ above\n        return not self.__eq__(other)\n",
     "new": "        # The recordclass base brings its own __ne__, which knows nothing of the __eq__ above\n        return not (self == other)\n"},
    {"name": "R14 one ordering operator zips without the length check (reverts part of audit fix C18#4)", "file": DTYPES, "expect": "C18.R14",
     "old": "        return all(x < y for x, y in self._ordering_pairs(other))", "new": "        return all(x < y for x, y in zip(self, other))"},
    {"name": "P R14 length check on materialised operands", "file": DTYPES, "expect": "silent",
     "old": "        if len(other) != len(self):\n            raise TypeError(f\"Can't order {self!r} against {other!r}\")\n        return zip(self, other)",
     "new": "        theirs = tuple(other)\n        if len(theirs) != len(tuple(self)):\n            raise TypeError(f\"Can't order {self!r} against {other!r}\")\n"
            "        return zip(self, theirs)"},
    {"name": "R4 subfield decode only guarded against KeyError (reverts audit fix C18#5)", "file": LOGR, "expect": "C18.R4",
     "old": "                            deserialized = block.deserialize_var(var_name)\n                        except Exception:",
     "new": "                            deserialized = block.deserialize_var(var_name)\n                        except KeyError:"},
    {"name": "P R4 subfield decode guard names KeyError and Exception", "file": LOGR, "expect": "silent",
     "old": "                            deserialized = block.deserialize_var(var_name)\n                        except Exception:",
     "new": "                            deserialized = block.deserialize_var(var_name)\n                        except (KeyError, Exception):"},
    # ---- second audit round (anchored on the fixed text: inapplicable until the fixes are committed)
    {"name": "R4 matches walks the blocks of an unparsable message unguarded (reverts audit2 fix #1)", "file": LOGR, "expect": "C18.R4",
     "old": "        try:\n            # Parses the body if that hasn't happened yet\n            block_names = list(message.blocks)\n"
            "        except Exception:\n            # The body doesn't parse, so there are no fields a comparison could be true of\n"
            "            return MatchResult(False, [])\n",
     "new": "        block_names = list(message.blocks)\n"},
    {"name": "P R4 body parse guarded through ensure_parsed style touch", "file": LOGR, "expect": "silent",
     "old": "        try:\n            # Parses the body if that hasn't happened yet\n            block_names = list(message.blocks)\n"
            "        except Exception:\n",
     "new": "        try:\n            block_names = tuple(message.blocks.keys())\n        except BaseException:\n"},
    {"name": "R6 extended dict no longer carries the trailer (reverts audit2 fix #3)", "expect": "C18.R6", "edits": [
        {"file": MSG, "old": "                \"trailer\": self.raw_trailer,\n", "new": ""},
        {"file": MSG, "old": "            # Not present in anything exported before the trailer was kept at all\n"
                             "            msg.raw_trailer = dict_val.get('trailer', b\"\")\n", "new": ""}]},
    {"name": "R6 trailer exported but never read back", "file": MSG, "expect": "C18.R6",
     "old": "            msg.raw_trailer = dict_val.get('trailer', b\"\")\n", "new": ""},
    {"name": "P R6 trailer read with an explicit membership test", "file": MSG, "expect": "silent",
     "old": "            msg.raw_trailer = dict_val.get('trailer', b\"\")\n",
     "new": "            if 'trailer' in dict_val:\n                msg.raw_trailer = dict_val['trailer']\n"},
    {"name": "R8 an already frozen entry is frozen again (reverts audit2 fix #4)", "file": LOGR, "expect": "C18.R8",
     "old": "        if self._message is None:\n            # Already frozen, the pickle we have is the logged message\n            return\n", "new": ""},
    {"name": "P R8 freeze pickles the message it just obtained", "expect": "silent", "edits": [
        {"file": LOGR, "old": "        if self._message is None:\n            # Already frozen, the pickle we have is the logged message\n            return\n", "new": ""},
        {"file": LOGR, "old": "self._frozen_message = pickle.dumps(self._message, protocol=pickle.HIGHEST_PROTOCOL)",
         "new": "self._frozen_message = pickle.dumps(message, protocol=pickle.HIGHEST_PROTOCOL)"}]},
    {"name": "R6 HTTP summary parses the body unguarded (reverts audit2 fix #5)", "file": LOGR, "expect": "C18.R6",
     "old": "            try:\n                notation = llsd.format_notation(llsd.parse(msg.content))\n"
            "                self._summary += notation.decode(\"utf8\")[:500]\n            except Exception:\n"
            "                # Labelled LLSD but isn't, the status alone will have to do\n                pass\n",
     "new": "            notation = llsd.format_notation(llsd.parse(msg.content))\n            self._summary += notation.decode(\"utf8\")[:500]\n"},
    {"name": "P R6 HTTP summary parse guarded with a logged handler", "file": LOGR, "expect": "silent",
     "old": "            except Exception:\n                # Labelled LLSD but isn't, the status alone will have to do\n                pass\n",
     "new": "            except Exception:\n                LOG.debug('response labelled LLSD does not parse')\n"},
    # ---- refactor round 8 mechanisms
    {"name": "P parser built in a helper that compile_filter calls", "file": FILT, "expect": "silent",
     "old": "    parser = ParserPython(message_filter)\n    parse_tree = parser.parse(filter_str)\n"
            "    return visit_parse_tree(parse_tree, MessageFilterVisitor())",
     "new": "    return visit_parse_tree(_parse(filter_str), MessageFilterVisitor())\n\n\n"
            "def _parse(filter_str, debug=False):\n    return ParserPython(message_filter, debug=debug).parse(filter_str)"},
    {"name": "P import dispatch through a per-entry helper", "file": LOGR, "expect": "silent",
     "old": "    return [_TYPE_CLASSES[e['type']].from_dict(e) for e in entries]",
     "new": "    return [_entry_from_dict(e) for e in entries]\n\n\ndef _entry_from_dict(val: dict):\n"
            "    return _TYPE_CLASSES[val['type']].from_dict(val)"},
    {"name": "R6 import helper dispatches on a key the export never writes", "file": LOGR, "expect": "C18.R6",
     "old": "    return [_TYPE_CLASSES[e['type']].from_dict(e) for e in entries]",
     "new": "    return [_entry_from_dict(e) for e in entries]\n\n\ndef _entry_from_dict(val: dict):\n"
            "    return _TYPE_CLASSES[val['kind']].from_dict(val)"},
    {"name": "P meta UUID keys (de)hydrated from one shared table", "expect": "silent", "edits": [
        {"file": LOGR, "old": "        _dehydrate_meta_uuid(\"AgentID\")\n        _dehydrate_meta_uuid(\"SelectedFull\")\n        _dehydrate_meta_uuid(\"SessionID\")\n",
         "new": "        for uuid_key in _UUID_META:\n            _dehydrate_meta_uuid(uuid_key)\n"},
        {"file": LOGR, "old": "        _hydrate_meta_uuid(\"AgentID\")\n        _hydrate_meta_uuid(\"SelectedFull\")\n        _hydrate_meta_uuid(\"SessionID\")\n",
         "new": "        for uuid_key in _UUID_META:\n            _hydrate_meta_uuid(uuid_key)\n"},
        {"file": LOGR, "old": "class BaseMessageLogger:\n", "new": "_UUID_META = (\"AgentID\", \"SelectedFull\", \"SessionID\")\n\n\nclass BaseMessageLogger:\n"}]},
    # ---- round 9 mechanisms
    {"name": "R15 HTTP _get_meta falls through with the lower-cased name", "file": LOGR, "expect": "C18.R15",
     "old": "            return self.flow.response.status_code\n        return super()._get_meta(name)",
     "new": "            return self.flow.response.status_code\n        return super()._get_meta(lower_name)"},
    {"name": "P R15 HTTP _get_meta keeps the lower-cased name in its own local", "file": LOGR, "expect": "silent",
     "old": "        lower_name = name.lower()\n        if lower_name == \"url\":",
     "new": "        wanted = name.lower()\n        lower_name = wanted\n        if lower_name == \"url\":"},
    {"name": "P R2 infix operators looked up in a table of (token, class) pairs", "file": FILT, "expect": "silent",
     "old": "            if children[1] == \"&&\":\n                return AndFilterNode(children[0], children[2])\n"
            "            elif children[1] == \"||\":\n                return OrFilterNode(children[0], children[2])\n"
            "            else:\n                raise ValueError(f\"Unrecognized operator {children[1]}\")\n",
     "new": "            for token, node_cls in ((\"&&\", AndFilterNode), (\"||\", OrFilterNode)):\n"
            "                if children[1] == token:\n                    return node_cls(children[0], children[2])\n"
            "            raise ValueError(f\"Unrecognized operator {children[1]}\")\n"},
    {"name": "P R3 And built on MatchResult classmethod constructors", "expect": "silent", "edits": [
        {"file": FILT, "old": "    def __bool__(self):\n        return self.result\n",
         "new": "    def __bool__(self):\n        return self.result\n\n    @classmethod\n    def no_match(cls):\n        return cls(False, [])\n"},
        {"file": FILT, "old": "        if not left_match:\n            return MatchResult(False, [])\n        right_match = self.right_node.match(msg, short_circuit)",
         "new": "        if not left_match:\n            return MatchResult.no_match()\n        right_match = self.right_node.match(msg, short_circuit)"}]},
    # ---- documented limits
    {"name": "X bare selector matches on the raw value instead of truthiness", "file": LOGR, "expect": "miss",
     "old": "                return bool(val)\n", "new": "                return val is not None\n"},
    {"name": "X retention window shrunk (view across overflow is not decided)", "file": LOGR, "expect": "miss",
     "old": "self._raw_entries = collections.deque(maxlen=maxlen)", "new": "self._raw_entries = collections.deque(maxlen=maxlen // 2)"},
]
