"""Self-test corpus for C19: text edits on a scratch overlay (never on /repo)."""
HC = "hippolyzer/lib/client/hippo_client.py"
BC = "hippolyzer/lib/base/message/circuit.py"
MH = "hippolyzer/lib/base/message/message_handler.py"

ACK = "            region.circuit.send_acks((message.packet_id,))\n"
TRK = "            should_handle = region.circuit.track_reliable(message.packet_id)\n"
TAIL = ("        try:\n            if should_handle:\n                self.session.message_handler.handle(message)\n"
        "        except:\n            LOG.exception(\"Failed in region message handler\")\n"
        "        if should_handle:\n            region.message_handler.handle(message)\n")
TRACK = ("        if packet_id in self.seen_reliable:\n            return False\n"
         "        self.seen_reliable.append(packet_id)\n        return True\n")

VARIANTS = [
    # ------------------------------------------------------------------ R1 ack unconditional
    {"name": "R1 ack only for packets not seen before", "file": HC, "expect": "C19.R1",
     "old": ACK + TRK,
     "new": TRK + "            if should_handle:\n                region.circuit.send_acks((message.packet_id,))\n"},
    {"name": "R1 ack deleted", "file": HC, "expect": "C19.R1", "old": ACK, "new": ""},
    {"name": "R1 ack carries the appended acks instead of the packet id", "file": HC, "expect": "C19.R1",
     "old": "region.circuit.send_acks((message.packet_id,))", "new": "region.circuit.send_acks(message.acks)"},
    {"name": "R1 duplicates return before the ack", "file": HC, "expect": "C19.R1",
     "old": ACK + TRK,
     "new": "            if not region.circuit.track_reliable(message.packet_id):\n                return\n" + ACK},
    {"name": "P R1 acked ids through a local", "file": HC, "expect": "silent",
     "old": ACK, "new": "            to_ack = (message.packet_id,)\n            region.circuit.send_acks(to_ack)\n"},
    {"name": "P R1 dedupe first, unconditional ack second", "file": HC, "expect": "silent",
     "old": ACK + TRK, "new": TRK + ACK},
    # ------------------------------------------------------------------ R2 dispatch honours the verdict
    {"name": "R2 region-level dispatch unguarded (D17)", "file": HC, "expect": "C19.R2",
     "old": "        if should_handle:\n            region.message_handler.handle(message)\n",
     "new": "        region.message_handler.handle(message)\n"},
    {"name": "R2 session-level dispatch unguarded", "file": HC, "expect": "C19.R2",
     "old": "            if should_handle:\n                self.session.message_handler.handle(message)\n",
     "new": "            self.session.message_handler.handle(message)\n"},
    {"name": "R2 verdict thrown away", "file": HC, "expect": "C19.R2",
     "old": TRK, "new": "            region.circuit.track_reliable(message.packet_id)\n"},
    {"name": "R2 reliable packets never reach the region handler", "file": HC, "expect": "C19.R2",
     "old": "        if should_handle:\n            region.message_handler.handle(message)\n",
     "new": "        if should_handle and not message.reliable:\n            region.message_handler.handle(message)\n"},
    {"name": "R2 no resend suppression at all", "file": HC, "expect": "C19.R2", "old": TRK, "new": ""},
    {"name": "P R2 early-exit form of the verdict", "file": HC, "expect": "silent",
     "old": TAIL,
     "new": "        if not should_handle:\n            return\n        try:\n"
            "            self.session.message_handler.handle(message)\n        except:\n"
            "            LOG.exception(\"Failed in region message handler\")\n        region.message_handler.handle(message)\n"},
    {"name": "P R2 duplicates return right after the ack", "file": HC, "expect": "silent",
     "old": TRK, "new": "            if not region.circuit.track_reliable(message.packet_id):\n                return\n"},
    {"name": "P R2 rename the verdict local", "file": HC, "expect": "silent", "edits": [
        {"file": HC, "old": "        should_handle = True\n", "new": "        is_new = True\n"},
        {"file": HC, "old": TRK, "new": "            is_new = region.circuit.track_reliable(message.packet_id)\n"},
        {"file": HC, "old": TAIL, "new": TAIL.replace("should_handle", "is_new")}]},
    # ------------------------------------------------------------------ R3 both ack forms / dedupe memory
    {"name": "R3 acks on a retransmission discarded (seed C19/1)", "expect": "C19.R3", "edits": [
        {"file": HC, "old": "        region.circuit.collect_acks(message)\n\n", "new": ""},
        {"file": HC, "old": TRK,
         "new": "            if not region.circuit.track_reliable(message.packet_id):\n                return\n"},
        {"file": HC, "old": "        try:\n            if should_handle:\n",
         "new": "        region.circuit.collect_acks(message)\n\n        try:\n            if should_handle:\n"}]},
    {"name": "R3 collect_acks deleted from the client", "file": HC, "expect": "C19.R3",
     "old": "        region.circuit.collect_acks(message)\n", "new": ""},
    {"name": "R3 collect_acks after the handlers", "expect": "C19.R3", "edits": [
        {"file": HC, "old": "        region.circuit.collect_acks(message)\n\n", "new": ""},
        {"file": HC, "old": "        if should_handle:\n            region.message_handler.handle(message)\n",
         "new": "        if should_handle:\n            region.message_handler.handle(message)\n        region.circuit.collect_acks(message)\n"}]},
    {"name": "R3 PacketAck blocks replace appended acks (seed C05/2)", "expect": "C19.R3", "edits": [
        {"file": BC, "old": "        effective_acks = list(message.acks)\n", "new": "        effective_acks = message.acks\n"},
        {"file": BC, "old": '            effective_acks.extend(x["ID"] for x in message["Packets"])\n',
         "new": '            effective_acks = [x["ID"] for x in message["Packets"]]\n'}]},
    {"name": "R3 pop without set_result", "file": BC, "expect": "C19.R3",
     "old": "            if resend_info and not resend_info.completed.done():\n                resend_info.completed.set_result(None)\n",
     "new": "            if resend_info and not resend_info.completed.done():\n                logging.debug('acked')\n"},
    {"name": "R3 track_reliable never appends", "file": BC, "expect": "C19.R3",
     "old": "        self.seen_reliable.append(packet_id)\n", "new": ""},
    {"name": "R3 track_reliable reports seen ids as new", "file": BC, "expect": "C19.R3",
     "old": "        if packet_id in self.seen_reliable:\n            return False\n",
     "new": "        if packet_id in self.seen_reliable:\n            return True\n"},
    {"name": "R3 track_reliable answers False for unseen ids", "file": BC, "expect": "C19.R3",
     "old": TRACK, "new": "        if packet_id in self.seen_reliable:\n            return False\n"
                          "        self.seen_reliable.append(packet_id)\n        return False\n"},
    {"name": "R3 mirror set evicts the newest entry (seed C19/2)", "expect": "C19.R3", "edits": [
        {"file": BC, "old": "        self.seen_reliable: deque[int] = deque(maxlen=1_000)\n",
         "new": "        self.seen_reliable: deque[int] = deque(maxlen=1_000)\n        self._seen_reliable_ids: Set[int] = set()\n"},
        {"file": BC, "old": TRACK,
         "new": "        if packet_id in self._seen_reliable_ids:\n            return False\n"
                "        if len(self.seen_reliable) == self.seen_reliable.maxlen:\n"
                "            self._seen_reliable_ids.discard(self.seen_reliable[-1])\n"
                "        self.seen_reliable.append(packet_id)\n        self._seen_reliable_ids.add(packet_id)\n        return True\n"}]},
    {"name": "R3 dedupe memory cleared on every ack", "file": BC, "expect": "C19.R3",
     "old": "        message.direction = direction\n        self.send(message)\n",
     "new": "        message.direction = direction\n        self.seen_reliable.clear()\n        self.send(message)\n"},
    {"name": "R3 send_reliable hands out an unrelated future", "file": BC, "expect": "C19.R3",
     "old": "        return self.unacked_reliable[(message.direction, message.packet_id)].completed\n",
     "new": "        return asyncio.Future()\n"},
    {"name": "R3 send_reliable does not set RELIABLE", "file": BC, "expect": "C19.R3",
     "old": "        message.send_flags |= PacketFlags.RELIABLE\n", "new": ""},
    {"name": "R3 ack matched against the ack's own direction", "file": BC, "expect": "C19.R3",
     "old": "self.unacked_reliable.pop((~message.direction, ack), None)", "new": "self.unacked_reliable.pop((message.direction, ack), None)"},
    {"name": "P R3 correct mirror set (evicts the oldest)", "expect": "silent", "edits": [
        {"file": BC, "old": "        self.seen_reliable: deque[int] = deque(maxlen=1_000)\n",
         "new": "        self.seen_reliable: deque[int] = deque(maxlen=1_000)\n        self._seen_reliable_ids: Set[int] = set()\n"},
        {"file": BC, "old": TRACK,
         "new": "        if packet_id in self._seen_reliable_ids:\n            return False\n"
                "        if len(self.seen_reliable) == self.seen_reliable.maxlen:\n"
                "            self._seen_reliable_ids.discard(self.seen_reliable[0])\n"
                "        self.seen_reliable.append(packet_id)\n        self._seen_reliable_ids.add(packet_id)\n        return True\n"}]},
    {"name": "P R3 verdict computed into a local", "file": BC, "expect": "silent",
     "old": TRACK,
     "new": "        is_new = packet_id not in self.seen_reliable\n        if is_new:\n"
            "            self.seen_reliable.append(packet_id)\n        return is_new\n"},
    {"name": "P R3 circuit through a local", "file": HC, "expect": "silent",
     "old": "        region.circuit.collect_acks(message)\n",
     "new": "        circuit = region.circuit\n        circuit.collect_acks(message)\n"},
    # ------------------------------------------------------------------ R4 id allocation
    {"name": "R4 packet_id_base written in send_acks", "file": BC, "expect": "C19.R4",
     "old": "        message.direction = direction\n        self.send(message)\n",
     "new": "        message.direction = direction\n        self.packet_id_base -= 1\n        self.send(message)\n"},
    {"name": "R4 increment removed", "file": BC, "expect": "C19.R4",
     "old": "        self.packet_id_base += 1\n", "new": ""},
    {"name": "R4 increment only for reliable packets", "file": BC, "expect": "C19.R4",
     "old": "        self.packet_id_base += 1\n", "new": "        if message.reliable:\n            self.packet_id_base += 1\n"},
    {"name": "R4 counter runs backwards", "file": BC, "expect": "C19.R4",
     "old": "        self.packet_id_base += 1\n", "new": "        self.packet_id_base -= 1\n"},
    {"name": "R4 id not taken from the counter", "file": BC, "expect": "C19.R4",
     "old": "        message.packet_id = self.packet_id_base\n", "new": "        message.packet_id = len(self.unacked_reliable)\n"},
    {"name": "R4 disconnect resets ids on a live circuit", "file": BC, "expect": "C19.R4",
     "old": "        self.is_alive = False\n", "new": ""},
    {"name": "P R4 increment first, hand out base - 1", "file": BC, "expect": "silent",
     "old": "        message.packet_id = self.packet_id_base\n        self.packet_id_base += 1\n",
     "new": "        self.packet_id_base += 1\n        message.packet_id = self.packet_id_base - 1\n"},
    {"name": "P R4 reorder independent stores in disconnect", "file": BC, "expect": "silent",
     "old": "        self.packet_id_base = 0\n        self.unacked_reliable.clear()\n        self.is_alive = False\n",
     "new": "        self.is_alive = False\n        self.unacked_reliable.clear()\n        self.packet_id_base = 0\n"},
    # ------------------------------------------------------------------ R5 budget exhaustion
    {"name": "R5 give-up without failing the future", "file": BC, "expect": "C19.R5",
     "old": '                if not resend_info.completed.done():\n                    resend_info.completed.set_exception(TimeoutError("Exceeded resend limit"))\n', "new": ""},
    {"name": "R5 exhausted entry still resent", "file": BC, "expect": "C19.R5",
     "old": '                    resend_info.completed.set_exception(TimeoutError("Exceeded resend limit"))\n                continue\n',
     "new": '                    resend_info.completed.set_exception(TimeoutError("Exceeded resend limit"))\n'},
    {"name": "R5 budget never decremented", "file": BC, "expect": "C19.R5",
     "old": "            resend_info.tries_left -= 1\n", "new": ""},
    {"name": "R5 exhausted entry never removed", "file": BC, "expect": "C19.R5",
     "old": "                del self.unacked_reliable[(msg.direction, msg.packet_id)]\n", "new": ""},
    {"name": "R5 resend goes through self.send (new id)", "file": BC, "expect": "C19.R5",
     "old": "            self._send_prepared_message(msg)\n", "new": "            self.send(msg)\n"},
    {"name": "R5 client never drives the resend timer", "file": HC, "expect": "C19.R5",
     "old": "                region.circuit.resend_unacked()\n", "new": "                pass\n"},
    {"name": "P R5 del spelled as discarded pop", "file": BC, "expect": "silent",
     "old": "                del self.unacked_reliable[(msg.direction, msg.packet_id)]\n",
     "new": "                self.unacked_reliable.pop((msg.direction, msg.packet_id))\n"},
    {"name": "P R5 budget test spelled as comparison", "file": BC, "expect": "silent",
     "old": "            if not resend_info.tries_left:\n", "new": "            if resend_info.tries_left <= 0:\n"},
    {"name": "X R5 retry budget off by one", "file": BC, "expect": "miss",
     "old": "    tries_left: int = 10\n", "new": "    tries_left: int = 11\n"},
    # ------------------------------------------------------------------ strengthening round
    {"name": "R5 cadence compares the .seconds component of the elapsed time", "file": BC, "expect": "C19.R5",
     "old": "            if _utcnow() - resend_info.last_resent < dt.timedelta(seconds=self.resend_every):\n",
     "new": "            waited = (_utcnow() - resend_info.last_resent).seconds\n"
            "            if waited < self.resend_every:\n"},
    {"name": "P R5 cadence through total_seconds()", "file": BC, "expect": "silent",
     "old": "            if _utcnow() - resend_info.last_resent < dt.timedelta(seconds=self.resend_every):\n",
     "new": "            if (_utcnow() - resend_info.last_resent).total_seconds() < self.resend_every:\n"},
    {"name": "R6 notify walks the live subscriber list through iter()", "file": "hippolyzer/lib/base/events.py", "expect": "C19.R6",
     "old": "        for handler in self.subscribers[:]:\n",
     "new": "        for handler in iter(self.subscribers):\n"},
    {"name": "P R6 snapshot spelled list()", "file": "hippolyzer/lib/base/events.py", "expect": "silent",
     "old": "        for handler in self.subscribers[:]:\n", "new": "        for handler in list(self.subscribers):\n"},
    {"name": "P R6 snapshot spelled tuple()", "file": "hippolyzer/lib/base/events.py", "expect": "silent",
     "old": "        for handler in self.subscribers[:]:\n",
     "new": "        for handler in tuple(self.subscribers):\n"},
    # ------------------------------------------------------------------ round 3
    {"name": "R7 empty notifier replaced on register", "file": MH, "expect": "C19.R7",
     "old": "        return self.handlers.setdefault(message_name, Event(message_name))\n",
     "new": "        existing = self.handlers.get(message_name)\n        if existing:\n            return existing\n"
            "        self.handlers[message_name] = Event(message_name)\n        return self.handlers[message_name]\n"},
    {"name": "P R7 register with an explicit None test", "file": MH, "expect": "silent",
     "old": "        return self.handlers.setdefault(message_name, Event(message_name))\n",
     "new": "        existing = self.handlers.get(message_name)\n        if existing is not None:\n            return existing\n"
            "        self.handlers[message_name] = Event(message_name)\n        return self.handlers[message_name]\n"},
    {"name": "P R7 register with a membership test", "file": MH, "expect": "silent",
     "old": "        return self.handlers.setdefault(message_name, Event(message_name))\n",
     "new": "        if message_name not in self.handlers:\n            self.handlers[message_name] = Event(message_name)\n"
            "        return self.handlers[message_name]\n"},
    {"name": "R7 handlers table wiped by has_handler", "file": MH, "expect": "C19.R7",
     "old": "        return message_name in self.handlers\n",
     "new": "        found = message_name in self.handlers\n        self.handlers.clear()\n        return found\n"},
    {"name": "P R2 dispatch moved into a helper method", "expect": "silent", "edits": [
        {"file": HC, "old": TAIL, "new": "        self._deliver(region, message, should_handle)\n\n"
                                        "    def _deliver(self, region, message, should_handle):\n" + TAIL}]},
    {"name": "R2 helper dispatches to the region handler unconditionally", "expect": "C19.R2", "edits": [
        {"file": HC, "old": TAIL, "new": "        self._deliver(region, message, should_handle)\n\n"
                                        "    def _deliver(self, region, message, should_handle):\n"
                                        + TAIL.replace("        if should_handle:\n            region.message_handler", "        if True:\n            region.message_handler")}]},
    # ------------------------------------------------------------------ round 4
    {"name": "R3 ids above everything seen are taken as new without a lookup", "file": BC, "expect": "C19.R3",
     "old": "        if packet_id in self.seen_reliable:\n            return False\n",
     "new": "        if self.seen_reliable and packet_id > max(self.seen_reliable[-3:]):\n"
            "            self.seen_reliable.append(packet_id)\n            return True\n"
            "        if packet_id in self.seen_reliable:\n            return False\n"},
    {"name": "P R3 empty-memory fast path", "file": BC, "expect": "silent",
     "old": "        if packet_id in self.seen_reliable:\n            return False\n",
     "new": "        if not self.seen_reliable:\n            self.seen_reliable.append(packet_id)\n            return True\n"
            "        if packet_id in self.seen_reliable:\n            return False\n"},
    {"name": "R1 send_acks silently skips without a transport", "file": BC, "expect": "C19.R1",
     "old": "        logging.debug(\"%r acking %r\" % (direction, to_ack))\n",
     "new": "        logging.debug(\"%r acking %r\" % (direction, to_ack))\n        if self.transport is None:\n            return\n"},
    {"name": "P R1 send_acks skips an empty id list", "file": BC, "expect": "silent",
     "old": "        logging.debug(\"%r acking %r\" % (direction, to_ack))\n",
     "new": "        if not to_ack:\n            return\n        logging.debug(\"%r acking %r\" % (direction, to_ack))\n"},
    # ------------------------------------------------------------------ key helper (refactor round 3, G2/7)
    {"name": "P R3 send_reliable looks its entry up through a key helper", "expect": "silent", "edits": [
        {"file": BC, "old": "class Circuit:\n", "new": "def _table_key(m):\n    return m.direction, m.packet_id\n\n\nclass Circuit:\n"},
        {"file": BC, "old": "        return self.unacked_reliable[(message.direction, message.packet_id)].completed\n",
         "new": "        return self.unacked_reliable[_table_key(message)].completed\n"}]},
    {"name": "R3 send_reliable key helper keys by packet id first", "expect": "C19.R3", "edits": [
        {"file": BC, "old": "class Circuit:\n", "new": "def _table_key(m):\n    return m.packet_id, m.direction\n\n\nclass Circuit:\n"},
        {"file": BC, "old": "        return self.unacked_reliable[(message.direction, message.packet_id)].completed\n",
         "new": "        return self.unacked_reliable[_table_key(message)].completed\n"}]},
    {"name": "R5 give-up removes a key built from the packet id only", "expect": "C19.R5", "edits": [
        {"file": BC, "old": "class Circuit:\n", "new": "def _table_key(m):\n    return m.packet_id\n\n\nclass Circuit:\n"},
        {"file": BC, "old": "                del self.unacked_reliable[(msg.direction, msg.packet_id)]\n",
         "new": "                del self.unacked_reliable[_table_key(msg)]\n"}]},
    # ------------------------------------------------------------------ round 7
    {"name": "R1 client settings turn deferred body parsing off", "file": HC, "expect": "C19.R1",
     "old": "class ClientSettings(Settings):\n", "new": "class ClientSettings(Settings):\n    ENABLE_DEFERRED_PACKET_PARSING: bool = SettingDescriptor(False)\n"},
    {"name": "P R1 client settings restate the deferred-parsing default", "file": HC, "expect": "silent",
     "old": "class ClientSettings(Settings):\n", "new": "class ClientSettings(Settings):\n    ENABLE_DEFERRED_PACKET_PARSING: bool = SettingDescriptor(True)\n"},
    {"name": "R1 unvalidated last-region shortcut in the address lookup", "file": "hippolyzer/lib/client/state.py", "expect": "C19.R1",
     "old": "        for region in self.regions:\n            if region.circuit_addr == circuit_addr and region.circuit:\n"
            "                return region\n        return None\n",
     "new": "        last = getattr(self, \"_last_region\", None)\n        if last is not None and last.circuit:\n"
            "            return last\n        for region in self.regions:\n"
            "            if region.circuit_addr == circuit_addr and region.circuit:\n                self._last_region = region\n"
            "                return region\n        return None\n"},
    {"name": "P R2 dedupe verdict fetched through a helper method", "expect": "silent", "edits": [
        {"file": HC, "old": TRK, "new": "            should_handle = self._is_new(region, message)\n"},
        {"file": HC, "old": "    def datagram_received(self, data, source_addr: ADDR_TUPLE):\n",
         "new": "    def _is_new(self, region, message):\n        return region.circuit.track_reliable(message.packet_id)\n\n"
                "    def datagram_received(self, data, source_addr: ADDR_TUPLE):\n"}]},
    {"name": "R2 helper verdict fetched but the region dispatch ignores it", "expect": "C19.R2", "edits": [
        {"file": HC, "old": TRK, "new": "            should_handle = self._is_new(region, message)\n"},
        {"file": HC, "old": "    def datagram_received(self, data, source_addr: ADDR_TUPLE):\n",
         "new": "    def _is_new(self, region, message):\n        return region.circuit.track_reliable(message.packet_id)\n\n"
                "    def datagram_received(self, data, source_addr: ADDR_TUPLE):\n"},
        {"file": HC, "old": "        if should_handle:\n            region.message_handler.handle(message)\n",
         "new": "        region.message_handler.handle(message)\n"}]},
    # ------------------------------------------------------------------ D32 (fix 4149389)
    {"name": "R3 ack completes the future without the done() test (D32 reverted, collect_acks)", "file": BC, "expect": "C19.R3",
     "old": "            if resend_info and not resend_info.completed.done():\n                resend_info.completed.set_result(None)\n",
     "new": "            if resend_info:\n                resend_info.completed.set_result(None)\n"},
    {"name": "R5 give-up fails the future without the done() test (D32 reverted, resend_unacked)", "file": BC, "expect": "C19.R5",
     "old": "                if not resend_info.completed.done():\n                    resend_info.completed.set_exception(TimeoutError(\"Exceeded resend limit\"))\n",
     "new": "                resend_info.completed.set_exception(TimeoutError(\"Exceeded resend limit\"))\n"},
    {"name": "P R3 done() test as a guard clause after the removal", "file": BC, "expect": "silent",
     "old": "            if resend_info and not resend_info.completed.done():\n                resend_info.completed.set_result(None)\n",
     "new": "            if not resend_info or resend_info.completed.done():\n                continue\n"
            "            resend_info.completed.set_result(None)\n"},
    # ------------------------------------------------------------------ round 8
    {"name": "R3 dedupe window pruned through a local alias outside the circuit", "file": HC, "expect": "C19.R3",
     "old": "    async def _handle_ping_check(self, message: Message):\n",
     "new": "    async def _handle_ping_check(self, message: Message):\n        window = self.circuit.seen_reliable\n"
            "        if len(window) > 500:\n            window.popleft()\n"},
    {"name": "P R3 dedupe window only read through a local alias", "file": HC, "expect": "silent",
     "old": "    async def _handle_ping_check(self, message: Message):\n",
     "new": "    async def _handle_ping_check(self, message: Message):\n        window = self.circuit.seen_reliable\n"
            "        LOG.debug(\"%d ids remembered\", len(window))\n"},
    {"name": "P R1 ack and dedupe on a circuit handed to a static helper", "expect": "silent", "edits": [
        {"file": HC, "old": ACK + TRK, "new": "            should_handle = self._ack(region.circuit, message)\n"},
        {"file": HC, "old": "    def datagram_received(self, data, source_addr: ADDR_TUPLE):\n",
         "new": "    @staticmethod\n    def _ack(circuit, message):\n        circuit.send_acks((message.packet_id,))\n"
                "        return circuit.track_reliable(message.packet_id)\n\n"
                "    def datagram_received(self, data, source_addr: ADDR_TUPLE):\n"}]},
    # ------------------------------------------------------------------ D41 (fix 7ea4f4c)
    {'name': 'R1 UDP-ban raise in front of the ack bookkeeping (D41 reverted)', 'expect': 'C19.R1', 'edits': [{'file': 'hippolyzer/lib/client/hippo_client.py', 'old': '        # Only after the ACK bookkeeping, the packet was received even if we won\'t look at the message\n        if not self.message_xml.validate_udp_msg(message.name):\n            LOG.warning(\n                f"Received {message.name!r} over UDP, when it should come over the event queue. Discarding."\n            )\n            raise PermissionError(f"UDPBanned message {message.name}")\n\n', 'new': ''}, {'file': 'hippolyzer/lib/client/hippo_client.py', 'old': '        region.circuit.collect_acks(message)\n\n        should_handle = True\n', 'new': '        # Only after the ACK bookkeeping, the packet was received even if we won\'t look at the message\n        if not self.message_xml.validate_udp_msg(message.name):\n            LOG.warning(\n                f"Received {message.name!r} over UDP, when it should come over the event queue. Discarding."\n            )\n            raise PermissionError(f"UDPBanned message {message.name}")\n\n        region.circuit.collect_acks(message)\n\n        should_handle = True\n'}]},
    {'name': 'R1 UDP-ban raise after collect_acks but before the ack', 'expect': 'C19.R1', 'edits': [{'file': 'hippolyzer/lib/client/hippo_client.py', 'old': '        # Only after the ACK bookkeeping, the packet was received even if we won\'t look at the message\n        if not self.message_xml.validate_udp_msg(message.name):\n            LOG.warning(\n                f"Received {message.name!r} over UDP, when it should come over the event queue. Discarding."\n            )\n            raise PermissionError(f"UDPBanned message {message.name}")\n\n', 'new': ''}, {'file': 'hippolyzer/lib/client/hippo_client.py', 'old': '        should_handle = True\n        if message.reliable:\n', 'new': '        # Only after the ACK bookkeeping, the packet was received even if we won\'t look at the message\n        if not self.message_xml.validate_udp_msg(message.name):\n            LOG.warning(\n                f"Received {message.name!r} over UDP, when it should come over the event queue. Discarding."\n            )\n            raise PermissionError(f"UDPBanned message {message.name}")\n\n        should_handle = True\n        if message.reliable:\n'}]},
    {'name': 'P R1 ban check in a helper called after the acks', 'expect': 'silent', 'edits': [{'file': 'hippolyzer/lib/client/hippo_client.py', 'old': '        # Only after the ACK bookkeeping, the packet was received even if we won\'t look at the message\n        if not self.message_xml.validate_udp_msg(message.name):\n            LOG.warning(\n                f"Received {message.name!r} over UDP, when it should come over the event queue. Discarding."\n            )\n            raise PermissionError(f"UDPBanned message {message.name}")\n\n', 'new': '        self._refuse_banned(message)\n\n'}, {'file': 'hippolyzer/lib/client/hippo_client.py', 'old': '    def datagram_received(self, data, source_addr: ADDR_TUPLE):\n', 'new': '    def _refuse_banned(self, message):\n        if not self.message_xml.validate_udp_msg(message.name):\n            raise PermissionError(f"UDPBanned message {message.name}")\n\n    def datagram_received(self, data, source_addr: ADDR_TUPLE):\n'}]},
    {'name': 'R3 ban check helper called before the acks are collected', 'expect': 'C19.R3', 'edits': [{'file': 'hippolyzer/lib/client/hippo_client.py', 'old': '        # Only after the ACK bookkeeping, the packet was received even if we won\'t look at the message\n        if not self.message_xml.validate_udp_msg(message.name):\n            LOG.warning(\n                f"Received {message.name!r} over UDP, when it should come over the event queue. Discarding."\n            )\n            raise PermissionError(f"UDPBanned message {message.name}")\n\n', 'new': ''}, {'file': 'hippolyzer/lib/client/hippo_client.py', 'old': '        region.circuit.collect_acks(message)\n\n        should_handle = True\n', 'new': '        self._refuse_banned(message)\n        region.circuit.collect_acks(message)\n\n        should_handle = True\n'}, {'file': 'hippolyzer/lib/client/hippo_client.py', 'old': '    def datagram_received(self, data, source_addr: ADDR_TUPLE):\n', 'new': '    def _refuse_banned(self, message):\n        if not self.message_xml.validate_udp_msg(message.name):\n            raise PermissionError(f"UDPBanned message {message.name}")\n\n    def datagram_received(self, data, source_addr: ADDR_TUPLE):\n'}]},
    # ------------------------------------------------------------------ audit round (anchored on the fixed text: inapplicable until the fixes are committed)
    {'name': 'R5 resend poll gated on is_alive again (audit C19#2 reverted)', 'file': 'hippolyzer/lib/client/hippo_client.py', 'expect': 'C19.R5', 'old': '                if not region.circuit:\n                    continue\n                region.circuit.resend_unacked()\n', 'new': '                if not region.circuit or not region.circuit.is_alive:\n                    continue\n                region.circuit.resend_unacked()\n'},
    {'name': 'P R5 resend poll skips regions without a circuit (is None spelling)', 'file': 'hippolyzer/lib/client/hippo_client.py', 'expect': 'silent', 'old': '                if not region.circuit:\n                    continue\n                region.circuit.resend_unacked()\n', 'new': '                if region.circuit is None:\n                    continue\n                region.circuit.resend_unacked()\n'},
    {'name': 'R5 resend clock back to naive local time (audit C05#3 reverted)', 'file': 'hippolyzer/lib/base/message/circuit.py', 'expect': 'C19.R5', 'old': '    return dt.datetime.now(dt.timezone.utc)\n', 'new': '    return dt.datetime.now()\n'},
    # ------------------------------------------------------------------ audit round 2 (anchored on the fixed text: inapplicable until the fixes are committed)
    {'name': 'R3 packet registered before it was handed to the transport (audit2 C05#1 reverted)', 'file': 'hippolyzer/lib/base/message/circuit.py', 'expect': 'C19.R3', 'old': "            packet = self._send_prepared_message(message, transport)\n            # If the message originates from us then we're responsible for resends. Only once it\n            # really went out: a packet that couldn't be serialized will never be ACKed.\n            if message.reliable and message.synthetic:\n                self.unacked_reliable[(message.direction, message.packet_id)] = ReliableResendInfo(\n                    last_resent=_utcnow(),\n                    message=message,\n                )\n            return packet\n", 'new': "            # If the message originates from us then we're responsible for resends.\n            if message.reliable and message.synthetic:\n                self.unacked_reliable[(message.direction, message.packet_id)] = ReliableResendInfo(\n                    last_resent=_utcnow(),\n                    message=message,\n                )\n            return self._send_prepared_message(message, transport)\n"},
    {'name': 'P R3 registration after the send, entry built in a local, guard clause', 'file': 'hippolyzer/lib/base/message/circuit.py', 'expect': 'silent', 'old': "            packet = self._send_prepared_message(message, transport)\n            # If the message originates from us then we're responsible for resends. Only once it\n            # really went out: a packet that couldn't be serialized will never be ACKed.\n            if message.reliable and message.synthetic:\n                self.unacked_reliable[(message.direction, message.packet_id)] = ReliableResendInfo(\n                    last_resent=_utcnow(),\n                    message=message,\n                )\n            return packet\n", 'new': '            packet = self._send_prepared_message(message, transport)\n            if not (message.reliable and message.synthetic):\n                return packet\n            info = ReliableResendInfo(last_resent=_utcnow(), message=message)\n            self.unacked_reliable[(message.direction, message.packet_id)] = info\n            return packet\n'},
    {'name': 'P R3 registered first, registration taken back when the send fails', 'file': 'hippolyzer/lib/base/message/circuit.py', 'expect': 'silent', 'old': "            packet = self._send_prepared_message(message, transport)\n            # If the message originates from us then we're responsible for resends. Only once it\n            # really went out: a packet that couldn't be serialized will never be ACKed.\n            if message.reliable and message.synthetic:\n                self.unacked_reliable[(message.direction, message.packet_id)] = ReliableResendInfo(\n                    last_resent=_utcnow(),\n                    message=message,\n                )\n            return packet\n", 'new': '            if message.reliable and message.synthetic:\n                self.unacked_reliable[(message.direction, message.packet_id)] = ReliableResendInfo(\n                    last_resent=_utcnow(),\n                    message=message,\n                )\n            try:\n                return self._send_prepared_message(message, transport)\n            except BaseException:\n                self.unacked_reliable.pop((message.direction, message.packet_id), None)\n                raise\n'},
    {'name': 'R5 a failed retransmission raises through the resend timer (audit2 C05#1 reverted)', 'file': 'hippolyzer/lib/base/message/circuit.py', 'expect': 'C19.R5', 'old': '            try:\n                self._send_prepared_message(msg)\n            except Exception:\n                # One packet failing to go out mustn\'t keep the ones behind it from being resent\n                # or timed out, it gets its remaining tries like any other.\n                logging.exception(f"Failed to resend {msg.packet_id}")\n', 'new': '            self._send_prepared_message(msg)\n'},
    {'name': "P R5 failed retransmission contained by the client's timer loop instead", 'expect': 'silent', 'edits': [{'file': 'hippolyzer/lib/base/message/circuit.py', 'old': '            try:\n                self._send_prepared_message(msg)\n            except Exception:\n                # One packet failing to go out mustn\'t keep the ones behind it from being resent\n                # or timed out, it gets its remaining tries like any other.\n                logging.exception(f"Failed to resend {msg.packet_id}")\n', 'new': '            self._send_prepared_message(msg)\n'}, {'file': 'hippolyzer/lib/client/hippo_client.py', 'old': '                region.circuit.resend_unacked()\n', 'new': '                try:\n                    region.circuit.resend_unacked()\n                except Exception:\n                    LOG.exception("Failed to resend")\n'}]},
    {'name': "R5 failed retransmission swallowed by a handler around the client's timer loop", 'expect': 'C19.R5', 'edits': [{'file': 'hippolyzer/lib/base/message/circuit.py', 'old': '            try:\n                self._send_prepared_message(msg)\n            except Exception:\n                # One packet failing to go out mustn\'t keep the ones behind it from being resent\n                # or timed out, it gets its remaining tries like any other.\n                logging.exception(f"Failed to resend {msg.packet_id}")\n', 'new': '            self._send_prepared_message(msg)\n'}, {'file': 'hippolyzer/lib/client/hippo_client.py', 'old': '    async def _attempt_resends(self):\n        while True:\n', 'new': '    async def _attempt_resends(self):\n        try:\n            await self._resend_loop()\n        except Exception:\n            LOG.exception("Resends failed")\n\n    async def _resend_loop(self):\n        while True:\n'}]},
    # ------------------------------------------------------------------ refactor round 8
    {'name': 'P R3 acked ids gathered by a static helper handed the message (refac8 G2/3)', 'file': 'hippolyzer/lib/base/message/circuit.py', 'expect': 'silent', 'old': '    def collect_acks(self, message: Message):\n        effective_acks = list(message.acks)\n        if message.name == "PacketAck":\n            effective_acks.extend(x["ID"] for x in message["Packets"])\n        for ack in effective_acks:\n', 'new': '    @staticmethod\n    def _acked_ids(msg: Message) -> List[int]:\n        acked_ids = list(msg.acks)\n        if msg.name == "PacketAck":\n            acked_ids.extend(x["ID"] for x in msg["Packets"])\n        return acked_ids\n\n    def collect_acks(self, message: Message):\n        for ack in self._acked_ids(message):\n'},
    {'name': 'R3 acked-ids helper forgets the PacketAck blocks', 'file': 'hippolyzer/lib/base/message/circuit.py', 'expect': 'C19.R3', 'old': '    def collect_acks(self, message: Message):\n        effective_acks = list(message.acks)\n        if message.name == "PacketAck":\n            effective_acks.extend(x["ID"] for x in message["Packets"])\n        for ack in effective_acks:\n', 'new': '    @staticmethod\n    def _acked_ids(msg: Message) -> List[int]:\n        acked_ids = list(msg.acks)\n        return acked_ids\n\n    def collect_acks(self, message: Message):\n        for ack in self._acked_ids(message):\n'},
    {'name': 'R3 acked-ids helper takes the PacketAck blocks only when nothing is appended', 'file': 'hippolyzer/lib/base/message/circuit.py', 'expect': 'C19.R3', 'old': '    def collect_acks(self, message: Message):\n        effective_acks = list(message.acks)\n        if message.name == "PacketAck":\n            effective_acks.extend(x["ID"] for x in message["Packets"])\n        for ack in effective_acks:\n', 'new': '    @staticmethod\n    def _acked_ids(msg: Message) -> List[int]:\n        acked_ids = list(msg.acks)\n        if msg.name == "PacketAck" and not msg.acks:\n            acked_ids.extend(x["ID"] for x in msg["Packets"])\n        return acked_ids\n\n    def collect_acks(self, message: Message):\n        for ack in self._acked_ids(message):\n'},
    # ------------------------------------------------------------------ refactor round 9
    {'name': 'P R5 resend loop split into give-up / resend step methods (refac9 G2/3)', 'file': 'hippolyzer/lib/base/message/circuit.py', 'expect': 'silent', 'old': '            msg = copy.copy(resend_info.message)\n            resend_info.tries_left -= 1\n            # We were on our last try and we never received an ack\n            if not resend_info.tries_left:\n                logging.warning(f"Giving up on unacked {msg.packet_id}")\n                del self.unacked_reliable[(msg.direction, msg.packet_id)]\n                if not resend_info.completed.done():\n                    resend_info.completed.set_exception(TimeoutError("Exceeded resend limit"))\n                continue\n            resend_info.last_resent = _utcnow()\n            msg.send_flags |= PacketFlags.RESENT\n            try:\n                self._send_prepared_message(msg)\n            except Exception:\n                # One packet failing to go out mustn\'t keep the ones behind it from being resent\n                # or timed out, it gets its remaining tries like any other.\n                logging.exception(f"Failed to resend {msg.packet_id}")\n\n', 'new': '            msg = copy.copy(resend_info.message)\n            resend_info.tries_left -= 1\n            if not resend_info.tries_left:\n                self._give_up_resending(resend_info, msg)\n                continue\n            self._resend(resend_info, msg)\n\n    def _give_up_resending(self, resend_info, msg) -> None:\n        logging.warning(f"Giving up on unacked {msg.packet_id}")\n        del self.unacked_reliable[(msg.direction, msg.packet_id)]\n        if not resend_info.completed.done():\n            resend_info.completed.set_exception(TimeoutError("Exceeded resend limit"))\n\n    def _resend(self, resend_info, msg) -> None:\n        resend_info.last_resent = _utcnow()\n        msg.send_flags |= PacketFlags.RESENT\n        try:\n            self._send_prepared_message(msg)\n        except Exception:\n            logging.exception(f"Failed to resend {msg.packet_id}")\n\n'},
    {'name': 'R5 split resend loop: the give-up step forgets the removal', 'file': 'hippolyzer/lib/base/message/circuit.py', 'expect': 'C19.R5', 'old': '            msg = copy.copy(resend_info.message)\n            resend_info.tries_left -= 1\n            # We were on our last try and we never received an ack\n            if not resend_info.tries_left:\n                logging.warning(f"Giving up on unacked {msg.packet_id}")\n                del self.unacked_reliable[(msg.direction, msg.packet_id)]\n                if not resend_info.completed.done():\n                    resend_info.completed.set_exception(TimeoutError("Exceeded resend limit"))\n                continue\n            resend_info.last_resent = _utcnow()\n            msg.send_flags |= PacketFlags.RESENT\n            try:\n                self._send_prepared_message(msg)\n            except Exception:\n                # One packet failing to go out mustn\'t keep the ones behind it from being resent\n                # or timed out, it gets its remaining tries like any other.\n                logging.exception(f"Failed to resend {msg.packet_id}")\n\n', 'new': '            msg = copy.copy(resend_info.message)\n            resend_info.tries_left -= 1\n            if not resend_info.tries_left:\n                self._give_up_resending(resend_info, msg)\n                continue\n            self._resend(resend_info, msg)\n\n    def _give_up_resending(self, resend_info, msg) -> None:\n        logging.warning(f"Giving up on unacked {msg.packet_id}")\n        if not resend_info.completed.done():\n            resend_info.completed.set_exception(TimeoutError("Exceeded resend limit"))\n\n    def _resend(self, resend_info, msg) -> None:\n        resend_info.last_resent = _utcnow()\n        msg.send_flags |= PacketFlags.RESENT\n        try:\n            self._send_prepared_message(msg)\n        except Exception:\n            logging.exception(f"Failed to resend {msg.packet_id}")\n\n'},
    {'name': 'P R5 client resend pass as a synchronous method (refac9 G2/8)', 'file': 'hippolyzer/lib/client/hippo_client.py', 'expect': 'silent', 'old': '    async def _attempt_resends(self):\n        while True:\n            if self.session is None:\n                break\n            for region in self.session.regions:\n                # Not gated on `is_alive`: a circuit that is still connecting has its reliable\n                # UseCircuitCode in flight, which needs resends (and a failure when they run out) too.\n                # A disconnected circuit had its unacked table cleared, so this is a no-op for it.\n                if not region.circuit:\n                    continue\n                region.circuit.resend_unacked()\n            await asyncio.sleep(0.5)\n\n', 'new': '    def _resend_pass(self) -> bool:\n        if self.session is None:\n            return False\n        for region in self.session.regions:\n            if not region.circuit:\n                continue\n            region.circuit.resend_unacked()\n        return True\n\n    async def _attempt_resends(self):\n        while self._resend_pass():\n            await asyncio.sleep(0.5)\n\n'},
    {'name': 'R5 client resend pass method gated on is_alive', 'file': 'hippolyzer/lib/client/hippo_client.py', 'expect': 'C19.R5', 'old': '    async def _attempt_resends(self):\n        while True:\n            if self.session is None:\n                break\n            for region in self.session.regions:\n                # Not gated on `is_alive`: a circuit that is still connecting has its reliable\n                # UseCircuitCode in flight, which needs resends (and a failure when they run out) too.\n                # A disconnected circuit had its unacked table cleared, so this is a no-op for it.\n                if not region.circuit:\n                    continue\n                region.circuit.resend_unacked()\n            await asyncio.sleep(0.5)\n\n', 'new': '    def _resend_pass(self) -> bool:\n        if self.session is None:\n            return False\n        for region in self.session.regions:\n            if not region.circuit or not region.circuit.is_alive:\n                continue\n            region.circuit.resend_unacked()\n        return True\n\n    async def _attempt_resends(self):\n        while self._resend_pass():\n            await asyncio.sleep(0.5)\n\n'},
]
