"""Self-test corpus for C20: text edits on a scratch overlay (never on /repo)."""
TEMPL = "hippolyzer/lib/base/templates.py"
SCHEMA = "hippolyzer/lib/base/legacy_schema.py"
INV = "hippolyzer/lib/base/inventory.py"
HELPERS = "hippolyzer/lib/base/helpers.py"
XFER = "hippolyzer/lib/base/xfer_manager.py"
TRANSFER = "hippolyzer/lib/base/transfer_manager.py"
ANIM = "hippolyzer/lib/base/llanim.py"

_XFER_HEAD_OLD = """        if packet_id.PacketID == 0:
            # Yes, S32. Only used as a hint so buffers can be pre-allocated,
            # EOF bit determines when the data actually ends.
            xfer.expected_size = TemplateDataPacker.unpack(packet_data[:4], MsgType.MVT_S32)
            # Don't re-set if we get a resend of packet 0
            if not xfer.size_known.done():
                xfer.size_known.set_result(xfer.expected_size)
            packet_data = packet_data[4:]
"""

_TRANSFER_TAIL_OLD = """        if transfer_block["Status"] == TransferStatus.DONE:
            transfer.expected_chunks = packet_id + 1
        if not transfer.done() and len(transfer.chunks) == transfer.expected_chunks:
            transfer.mark_done()
"""

VARIANTS = [
    # ------------------------------------------------------------------ R1 breaking
    {"name": "R1 BiDi value collides with a member name", "file": TEMPL, "expect": "C20.R1",
     "old": '"texture_tga": "txtr_tga",', "new": '"texture_tga": "texture",'},
    {"name": "R1 duplicate BiDi value", "file": TEMPL, "expect": "C20.R1",
     "old": '"lsl_bytecode": "lslbyte",', "new": '"lsl_bytecode": "lsltext",'},
    {"name": "R1 from_lookup_name consults the forward table", "file": TEMPL, "expect": "C20.R1",
     "old": "reg_name = _INV_TYPE_BIDI.backward.get(legacy_name, legacy_name).upper()",
     "new": "reg_name = _INV_TYPE_BIDI.forward.get(legacy_name, legacy_name).upper()"},
    {"name": "R1 SaleType legacy name listed twice", "file": TEMPL, "expect": "C20.R1",
     "old": '_SALE_TYPE_LEGACY_NAMES = ("not", "orig", "copy", "cntn")',
     "new": '_SALE_TYPE_LEGACY_NAMES = ("not", "orig", "copy", "copy")'},
    {"name": "R1 BiDiDict.backward not inverted", "file": HELPERS, "expect": "C20.R1",
     "old": "self.backward = {value: key for (key, value) in values.items()}",
     "new": "self.backward = {key: value for (key, value) in values.items()}"},
    {"name": "R1 new member whose default name is another member's legacy name", "file": TEMPL, "expect": "C20.R1",
     "old": "    ATTACHMENT = 17\n", "new": "    ATTACHMENT = 17\n    ATTACH = 27\n"},
    {"name": "R1 lookup name with an embedded tab", "file": TEMPL, "expect": "C20.R1",
     "old": '"marketplace_stock": "stock",', "new": '"marketplace_stock": "stock\\tfolder",'},
    # ------------------------------------------------------------------ R1 preserving
    {"name": "P R1 reorder BiDi rows", "file": TEMPL, "expect": "silent",
     "old": '    "current_outfit": "current",\n    "my_outfits": "my_otfts",\n',
     "new": '    "my_outfits": "my_otfts",\n    "current_outfit": "current",\n'},
    {"name": "P R1 single-expression to_lookup_name", "file": TEMPL, "expect": "silent",
     "old": "        lower = self.name.lower()\n        return _INV_TYPE_BIDI.forward.get(lower, lower)",
     "new": "        return _INV_TYPE_BIDI.forward.get(self.name.lower(), self.name.lower())"},
    {"name": "P R1 rename local in from_lookup_name", "file": TEMPL, "expect": "silent",
     "old": "        reg_name = _ASSET_TYPE_BIDI.backward.get(legacy_name, legacy_name).upper()\n        return cls[reg_name]",
     "new": "        member_name = _ASSET_TYPE_BIDI.backward.get(legacy_name, legacy_name).upper()\n        return cls[member_name]"},
    {"name": "P R1 SaleType legacy names permuted consistently", "file": TEMPL, "expect": "silent",
     "old": '_SALE_TYPE_LEGACY_NAMES = ("not", "orig", "copy", "cntn")',
     "new": '_SALE_TYPE_LEGACY_NAMES = ("not", "orig", "cntn", "copy")'},
    # ------------------------------------------------------------------ R2 breaking
    {"name": "R2 SchemaDate.deserialize local time (seed 2 shape)", "file": SCHEMA, "expect": "C20.R2",
     "old": "return dt.datetime.utcfromtimestamp(int(val))", "new": "return dt.datetime.fromtimestamp(int(val))"},
    {"name": "R2 SchemaDate.to_llsd via naive .timestamp()", "file": SCHEMA, "expect": "C20.R2",
     "old": "    def to_llsd(cls, val: dt.datetime, flavor: str):\n        return calendar.timegm(val.utctimetuple())",
     "new": "    def to_llsd(cls, val: dt.datetime, flavor: str):\n        return int(val.timestamp())"},
    {"name": "R2 hex field written in decimal", "file": SCHEMA, "expect": "C20.R2",
     "old": 'return "%08x" % val', "new": 'return "%08d" % val'},
    {"name": "R2 multi-line terminator differs from the reader's", "file": SCHEMA, "expect": "C20.R2",
     "old": 'return val + "|"', "new": 'return val + ";"'},
    {"name": "R2 flag field unpacked little-endian", "file": INV, "expect": "C20.R2",
     "old": 'return struct.unpack("!I", val)[0]', "new": 'return struct.unpack("<I", val)[0]'},
    {"name": "R2 SchemaHexInt.deserialize deleted", "file": SCHEMA, "expect": "C20.R2",
     "old": "    @classmethod\n    def deserialize(cls, val: str) -> int:\n        return int(val, 16)\n\n", "new": ""},
    {"name": "R2 enum to_llsd ignores the legacy flavour", "file": INV, "expect": "C20.R2",
     "old": '        if flavor == "legacy":\n            return self.serialize(val)\n        return int(val)',
     "new": "        return int(val)"},
    {"name": "R2 embedded LLSD written as notation, parsed as XML", "file": SCHEMA, "expect": "C20.R2",
     "old": 'xml = llsd.format_xml(val).split(b">", 1)[1].decode("utf8")',
     "new": 'xml = llsd.format_notation(val).decode("utf8")'},
    # ------------------------------------------------------------------ R2 preserving
    {"name": "P R2 temporary in SchemaDate.serialize", "file": SCHEMA, "expect": "silent",
     "old": "        return str(calendar.timegm(val.utctimetuple()))",
     "new": "        stamp = calendar.timegm(val.utctimetuple())\n        LOG.debug('date %r', stamp)\n        return str(stamp)"},
    {"name": "P R2 rename value parameter", "file": SCHEMA, "expect": "silent",
     "old": '    def deserialize(cls, val: str) -> int:\n        return int(val, 16)',
     "new": '    def deserialize(cls, text: str) -> int:\n        return int(text, 16)'},
    {"name": "P R2 inverted flavour guard", "file": INV, "expect": "silent",
     "old": '        if flavor == "legacy":\n            return struct.pack("!I", val)\n        return val',
     "new": '        if flavor != "legacy":\n            return val\n        return struct.pack("!I", val)'},
    {"name": "P R2 nested-if form of the reader", "file": INV, "expect": "silent",
     "old": '        if flavor == "legacy":\n            return struct.unpack("!I", val)[0]\n        return val',
     "new": '        if flavor == "legacy":\n            unpacked = struct.unpack("!I", val)\n            return unpacked[0]\n        else:\n            return val'},
    # ------------------------------------------------------------------ R3 breaking
    {"name": "R3 to_llsd emits under the dataclass name", "file": SCHEMA, "expect": "C20.R3",
     "old": "            obj_dict[field_name] = val\n", "new": "            obj_dict[field.name] = val\n"},
    {"name": "R3 from_llsd keeps the wire key", "file": SCHEMA, "expect": "C20.R3",
     "old": "                key = field.name\n", "new": ""},
    {"name": "R3 to_writer keys on the legacy LLSD table", "file": INV, "expect": "C20.R3",
     "old": "fields_dict.update(self._get_fields_dict())", "new": 'fields_dict.update(self._get_fields_dict("legacy"))'},
    {"name": "R3 from_llsd ignores its flavour", "file": SCHEMA, "expect": "C20.R3",
     "old": "fields = cls._get_fields_dict(llsd_flavor=flavor)", "new": 'fields = cls._get_fields_dict(llsd_flavor="legacy")'},
    {"name": "R3 nested schema name typo", "file": INV, "expect": "C20.R3",
     "old": 'SCHEMA_NAME: ClassVar[str] = "sale_info"', "new": 'SCHEMA_NAME: ClassVar[str] = "saleinfo"'},
    {"name": "R3 model reader dispatches a misspelt header", "file": INV, "expect": "C20.R3",
     "old": 'elif key == "inv_category":', "new": 'elif key == "inv_cat":'},
    {"name": "R3 AIS rename of a key that is not in the table", "file": INV, "expect": "C20.R3",
     "old": 'fields.pop("preferred_type")', "new": 'fields.pop("pref_type")'},
    {"name": "R3 AIS renames applied to the text table too", "file": INV, "expect": "C20.R3",
     "old": '        if llsd_flavor == "ais":\n            # These have different names though',
     "new": '        if llsd_flavor != "legacy":\n            # These have different names though'},
    {"name": "R3 ID_ATTR names no field", "file": INV, "expect": "C20.R3",
     "old": 'ID_ATTR: ClassVar[str] = "obj_id"', "new": 'ID_ATTR: ClassVar[str] = "object_id"'},
    # ------------------------------------------------------------------ R3 preserving
    {"name": "P R3 positional flavour argument", "file": SCHEMA, "expect": "silent",
     "old": "fields = cls._get_fields_dict(llsd_flavor=flavor)", "new": "fields = cls._get_fields_dict(flavor)"},
    {"name": "P R3 store under field.name directly", "file": SCHEMA, "expect": "silent",
     "edits": [{"file": SCHEMA, "old": "                    obj_dict[key] = spec.from_llsd(val, flavor)\n                elif",
                "new": "                    obj_dict[field.name] = spec.from_llsd(val, flavor)\n                elif"},
               {"file": SCHEMA, "old": "                    obj_dict[key] = spec.from_llsd(val, flavor)\n                else",
                "new": "                    obj_dict[field.name] = spec.from_llsd(val, flavor)\n                else"}]},
    {"name": "P R3 table in a local before the writer loop", "file": SCHEMA, "expect": "silent",
     "old": "        for field_name, field in self._get_fields_dict(llsd_flavor=flavor).items():",
     "new": "        table = self._get_fields_dict(llsd_flavor=flavor)\n        for field_name, field in table.items():"},
    {"name": "P R3 LLSD dispatcher key renamed local", "file": INV, "expect": "silent",
     "edits": [{"file": INV, "old": "                id_attr = inv_type.ID_ATTR\n", "new": "                id_key = inv_type.ID_ATTR\n"},
               {"file": INV, "old": "                    id_attr = getattr(inv_type, \"ID_ATTR_AIS\", id_attr)\n",
                "new": "                    id_key = getattr(inv_type, \"ID_ATTR_AIS\", id_key)\n"},
               {"file": INV, "old": "                if id_attr in obj_dict:\n", "new": "                if id_key in obj_dict:\n"}]},
    {"name": "R3 AIS dispatcher ignores ID_ATTR_AIS again (D24 reverted)", "file": INV, "expect": "C20.R3",
     "old": "                    id_attr = getattr(inv_type, \"ID_ATTR_AIS\", id_attr)\n",
     "new": "                    pass\n"},
    # ------------------------------------------------------------------ R4 breaking
    {"name": "R4 receiver unpacks S64 from a 4-byte window", "file": XFER, "expect": "C20.R4",
     "old": "TemplateDataPacker.unpack(packet_data[:4], MsgType.MVT_S32)",
     "new": "TemplateDataPacker.unpack(packet_data[:4], MsgType.MVT_S64)"},
    {"name": "R4 strip narrower than the prefix", "file": XFER, "expect": "C20.R4",
     "old": "            packet_data = packet_data[4:]", "new": "            packet_data = packet_data[2:]"},
    {"name": "R4 two chunk sizes in the sender", "file": XFER, "expect": "C20.R4",
     "old": "data = data[MAX_CHUNK_SIZE:]", "new": "data = data[MAX_CHUNK_SIZE - 4:]"},
    {"name": "R4 strip skipped on a resent packet 0 (seed 1 shape)", "file": XFER, "expect": "C20.R4",
     "old": _XFER_HEAD_OLD,
     "new": """        if packet_id.PacketID == 0 and not xfer.size_known.done():
            xfer.expected_size = TemplateDataPacker.unpack(packet_data[:4], MsgType.MVT_S32)
            xfer.size_known.set_result(xfer.expected_size)
            packet_data = packet_data[4:]
"""},
    {"name": "R4 raw packet stored instead of the stripped data", "file": XFER, "expect": "C20.R4",
     "old": "xfer.chunks[packet_id.PacketID] = packet_data", "new": 'xfer.chunks[packet_id.PacketID] = msg["DataPacket"]["Data"]'},
    {"name": "R4 expected chunk count off by one", "file": XFER, "expect": "C20.R4",
     "old": "xfer.expected_chunks = packet_id.PacketID + 1", "new": "xfer.expected_chunks = packet_id.PacketID"},
    {"name": "R4 strip applied to every packet", "file": XFER, "expect": "C20.R4",
     "old": "                xfer.size_known.set_result(xfer.expected_size)\n            packet_data = packet_data[4:]",
     "new": "                xfer.size_known.set_result(xfer.expected_size)\n        packet_data = packet_data[4:]"},
    # ------------------------------------------------------------------ R4 preserving
    {"name": "P R4 name the literal 4", "file": XFER, "expect": "silent",
     "edits": [{"file": XFER, "old": "ACK_AHEAD_MAX = 10\n", "new": "ACK_AHEAD_MAX = 10\nLENGTH_PREFIX_SIZE = 4\n"},
               {"file": XFER, "old": "packet_data[:4]", "new": "packet_data[:LENGTH_PREFIX_SIZE]"},
               {"file": XFER, "old": "packet_data = packet_data[4:]", "new": "packet_data = packet_data[LENGTH_PREFIX_SIZE:]"}]},
    {"name": "P R4 hoist the packet number into a local", "file": XFER, "expect": "silent",
     "edits": [{"file": XFER, "old": "        if packet_id.PacketID == 0:\n",
                "new": "        pkt_num = packet_id.PacketID\n        if pkt_num == 0:\n"},
               {"file": XFER, "old": "xfer.chunks[packet_id.PacketID] = packet_data", "new": "xfer.chunks[pkt_num] = packet_data"}]},
    {"name": "P R4 early return for duplicates before the strip", "file": XFER, "expect": "silent",
     "old": "        # First 4 bytes are expected total data length\n",
     "new": "        if xfer.done():\n            return\n        # First 4 bytes are expected total data length\n"},
    # ------------------------------------------------------------------ R5 breaking
    {"name": "R5 Transfer completes on the DONE marker alone (D18)", "file": TRANSFER, "expect": "C20.R5",
     "old": _TRANSFER_TAIL_OLD,
     "new": """        if transfer_block["Status"] == TransferStatus.DONE and not transfer.done():
            transfer.mark_done()
"""},
    {"name": "R5 Xfer completes on EOF alone", "file": XFER, "expect": "C20.R5",
     "old": "        if not xfer.done() and len(xfer.chunks) == xfer.expected_chunks:\n            xfer.mark_done()",
     "new": "        if not xfer.done() and packet_id.IsEOF:\n            xfer.mark_done()"},
    {"name": "R5 Transfer assembles in arrival order", "file": TRANSFER, "expect": "C20.R5",
     "old": "for _, data in sorted(self.chunks.items()):", "new": "for _, data in self.chunks.items():"},
    {"name": "R5 Xfer assembles in arrival order", "file": XFER, "expect": "C20.R5",
     "old": "for _, data in sorted(self.chunks.items()):", "new": "for data in self.chunks.values():"},
    {"name": "R5 Transfer stores the chunk after deciding completion", "file": TRANSFER, "expect": "C20.R5",
     "edits": [{"file": TRANSFER, "old": "        packet_data = transfer_block[\"Data\"]\n        transfer.chunks[packet_id] = packet_data\n",
                "new": "        packet_data = transfer_block[\"Data\"]\n"},
               {"file": TRANSFER, "old": "            transfer.mark_done()\n\n    def _handle_transfer_info",
                "new": "            transfer.mark_done()\n        transfer.chunks[packet_id] = packet_data\n\n    def _handle_transfer_info"}]},
    {"name": "R5 Transfer expected count without + 1", "file": TRANSFER, "expect": "C20.R5",
     "old": "transfer.expected_chunks = packet_id + 1", "new": "transfer.expected_chunks = packet_id"},
    # ------------------------------------------------------------------ R5 preserving
    {"name": "P R5 completion extracted into a helper", "file": TRANSFER, "expect": "silent",
     "old": "        if not transfer.done() and len(transfer.chunks) == transfer.expected_chunks:\n            transfer.mark_done()\n",
     "new": "        self._maybe_complete(transfer)\n\n    def _maybe_complete(self, transfer: Transfer):\n"
            "        if transfer.done():\n            return\n"
            "        if len(transfer.chunks) == transfer.expected_chunks:\n            transfer.mark_done()\n"},
    {"name": "P R5 nested-if form of the completion test", "file": XFER, "expect": "silent",
     "old": "        if not xfer.done() and len(xfer.chunks) == xfer.expected_chunks:\n            xfer.mark_done()",
     "new": "        if not xfer.done():\n            have = len(xfer.chunks)\n            if xfer.expected_chunks == len(xfer.chunks):\n"
            "                LOG_HAVE = have\n                xfer.mark_done()"},
    {"name": "P R5 sorted over items into a local", "file": TRANSFER, "expect": "silent",
     "old": "        for _, data in sorted(self.chunks.items()):\n            assembled.extend(data)",
     "new": "        for chunk_id, chunk in sorted(self.chunks.items()):\n            assembled.extend(chunk)"},
    {"name": "P R5 mark_done in a helper guarded at its call site", "file": XFER, "expect": "silent",
     "edits": [{"file": XFER,
                "old": "        if not xfer.done() and len(xfer.chunks) == xfer.expected_chunks:\n            xfer.mark_done()",
                "new": "        if not xfer.done() and len(xfer.chunks) == xfer.expected_chunks:\n            self._finish(xfer)"},
               {"file": XFER, "old": "    def upload_asset(\n",
                "new": "    def _finish(self, xfer: Xfer):\n        xfer.mark_done()\n\n    def upload_asset(\n"}]},
    # ------------------------------------------------------------------ R6 breaking
    {"name": "R6 PosKeyframe handles a different version key", "file": ANIM, "expect": "C20.R6",
     "old": "(1, 0): se.Vector3U16(-5.0, 5.0),", "new": "(1, 1): se.Vector3U16(-5.0, 5.0),"},
    {"name": "R6 RotKeyframe loses the (0, 1) layout", "file": ANIM, "expect": "C20.R6",
     "old": "            (0, 1): se.PackedQuat(se.Vector3),\n", "new": ""},
    {"name": "R6 default version without a layout", "file": ANIM, "expect": "C20.R6",
     "old": "major_version: int = se.dataclass_field(se.U16, default=1)", "new": "major_version: int = se.dataclass_field(se.U16, default=2)"},
    {"name": "R6 selector returns (minor, major)", "file": ANIM, "expect": "C20.R6",
     "old": "return ctx._root.major_version, ctx._root.minor_version", "new": "return ctx._root.minor_version, ctx._root.major_version"},
    # ------------------------------------------------------------------ R6 preserving
    {"name": "P R6 reorder VERSIONED_TIME options", "file": ANIM, "expect": "silent",
     "old": "        (0, 1): se.F32,\n        (1, 0): QuantizedTime(se.U16),\n",
     "new": "        (1, 0): QuantizedTime(se.U16),\n        (0, 1): se.F32,\n"},
    {"name": "P R6 selector through locals", "file": ANIM, "expect": "silent",
     "old": "    return ctx._root.major_version, ctx._root.minor_version",
     "new": "    root = ctx._root\n    return root.major_version, root.minor_version"},
    # ------------------------------------------------------------------ documented limits
    {"name": "X completion test == relaxed to >=", "file": XFER, "expect": "miss",
     "old": "len(xfer.chunks) == xfer.expected_chunks", "new": "len(xfer.chunks) >= (xfer.expected_chunks or 1 << 31)"},
    {"name": "X sender never sets the EOF bit (value level)", "file": XFER, "expect": "miss",
     "old": "IsEOF=not bool(xfer.chunks)", "new": "IsEOF=False"},
    {"name": "X optional field dropped by a wrong None test (value level)", "file": SCHEMA, "expect": "miss",
     "old": "            if val is None:\n                continue\n\n            spec_cls = spec",
     "new": "            if not val:\n                continue\n\n            spec_cls = spec"},
]

# ---------------------------------------------------------------------- strengthening round
MESH = "hippolyzer/lib/base/mesh.py"

_SENDER_LOOP_OLD = """            chunk_num = 0
            while data:
                self.chunks[chunk_num] = data[:MAX_CHUNK_SIZE]
                data = data[MAX_CHUNK_SIZE:]
                chunk_num += 1
"""
_SENDER_OFFSET_LOOP = """            chunk_num = 0
            offset = 0
            while offset < total:
                self.chunks[chunk_num] = data[offset:offset + MAX_CHUNK_SIZE]
                offset += MAX_CHUNK_SIZE
                chunk_num += 1
"""
_PREFIX_COMMENT = "            # Prepend the expected length field to the first chunk\n"

_WEIGHTS_READER_OLD = """        for _ in range(cls.INFLUENCE_LIMIT):
            joint_idx = reader.read_bytes(1)[0]
            if joint_idx == cls.INFLUENCE_TERM:
                break
"""
_MODEL_READER_OLD = """            if key == "inv_object":
                obj = InventoryObject.from_reader(reader)
                if obj is not None:
                    model.add(obj)
            elif key == "inv_category":
                cat = InventoryCategory.from_reader(reader)
                if cat is not None:
                    model.add(cat)
            elif key == "inv_item":
                item = InventoryItem.from_reader(reader)
                if item is not None:
                    model.add(item)
            else:
"""
_MODEL_READER_TABLE = """            node_cls = _READERS.get(key)
            if node_cls is not None:
                parsed = node_cls.from_reader(reader)
                if parsed is not None:
                    model.add(parsed)
            else:
"""
_TYPES_LINE = "INVENTORY_TYPES: Tuple[Type[InventoryNodeBase], ...] = (InventoryCategory, InventoryObject, InventoryItem)\n"

VARIANTS += [
    {"name": "R4 payload length taken before the prefix bounds the chunk loop", "expect": "C20.R4",
     "edits": [{"file": XFER, "old": _PREFIX_COMMENT, "new": "            total = len(data)\n" + _PREFIX_COMMENT},
               {"file": XFER, "old": _SENDER_LOOP_OLD, "new": _SENDER_OFFSET_LOOP}]},
    {"name": "R4 offset window advances by another size", "expect": "C20.R4",
     "edits": [{"file": XFER, "old": _SENDER_LOOP_OLD,
                "new": "            total = len(data)\n" + _SENDER_OFFSET_LOOP.replace("offset += MAX_CHUNK_SIZE", "offset += MAX_CHUNK_SIZE + 1")}]},
    {"name": "P R4 offset-window chunking over the prefixed buffer", "expect": "silent",
     "edits": [{"file": XFER, "old": _SENDER_LOOP_OLD, "new": "            total = len(data)\n" + _SENDER_OFFSET_LOOP}]},
    {"name": "P R4 chunk count from the prefixed buffer, range loop", "expect": "silent",
     "edits": [{"file": XFER, "old": _SENDER_LOOP_OLD,
                "new": "            count = (len(data) + MAX_CHUNK_SIZE - 1) // MAX_CHUNK_SIZE\n"
                       "            for chunk_num in range(count):\n"
                       "                start = chunk_num * MAX_CHUNK_SIZE\n"
                       "                self.chunks[chunk_num] = data[start:start + MAX_CHUNK_SIZE]\n"}]},
    {"name": "R7 weights reader stops only at the terminator", "file": MESH, "expect": "C20.R7",
     "old": _WEIGHTS_READER_OLD,
     "new": """        while True:
            joint_idx = reader.read_bytes(1)[0]
            if joint_idx == cls.INFLUENCE_TERM:
                break
"""},
    {"name": "R7 weights writer always terminates, reader still counts", "file": MESH, "expect": "C20.R7",
     "old": "        if len(vals) != cls.INFLUENCE_LIMIT:\n            writer.write(se.U8, cls.INFLUENCE_TERM)",
     "new": "        writer.write(se.U8, cls.INFLUENCE_TERM)"},
    {"name": "R7 weights reader counts to a different limit", "file": MESH, "expect": "C20.R7",
     "old": "        for _ in range(cls.INFLUENCE_LIMIT):\n            joint_idx = reader.read_bytes(1)[0]",
     "new": "        for _ in range(cls.INFLUENCE_LIMIT + 1):\n            joint_idx = reader.read_bytes(1)[0]"},
    {"name": "P R7 count bound as a while test, writer guard as <", "expect": "silent",
     "edits": [{"file": MESH, "old": _WEIGHTS_READER_OLD,
                "new": """        while len(influence_list) < cls.INFLUENCE_LIMIT:
            joint_idx = reader.read_bytes(1)[0]
            if joint_idx == cls.INFLUENCE_TERM:
                break
"""},
               {"file": MESH, "old": "        if len(vals) != cls.INFLUENCE_LIMIT:\n            writer.write(se.U8, cls.INFLUENCE_TERM)",
                "new": "        if len(vals) < cls.INFLUENCE_LIMIT:\n            writer.write(se.U8, cls.INFLUENCE_TERM)"}]},
    {"name": "P R7 count bound as an exit test inside while True", "file": MESH, "expect": "silent",
     "old": _WEIGHTS_READER_OLD,
     "new": """        while True:
            if len(influence_list) >= cls.INFLUENCE_LIMIT:
                break
            joint_idx = reader.read_bytes(1)[0]
            if joint_idx == cls.INFLUENCE_TERM:
                break
"""},
    {"name": "R3 table dispatch with a misspelt schema key", "expect": "C20.R3",
     "edits": [{"file": INV, "old": _MODEL_READER_OLD, "new": _MODEL_READER_TABLE},
               {"file": INV, "old": _TYPES_LINE,
                "new": _TYPES_LINE + '_READERS = {"inv_object": InventoryObject, "inv_cat": InventoryCategory, '
                                     '"inv_item": InventoryItem}\n'}]},
    {"name": "P R3 table dispatch of the model-level reader", "expect": "silent",
     "edits": [{"file": INV, "old": _MODEL_READER_OLD, "new": _MODEL_READER_TABLE},
               {"file": INV, "old": _TYPES_LINE,
                "new": _TYPES_LINE + '_READERS = {"inv_object": InventoryObject, "inv_category": InventoryCategory, '
                                     '"inv_item": InventoryItem}\n'}]},
]

# ---------------------------------------------------------------------- round 3
_SKIP_OLD = '        if obj_dict.get("type") == "-1":\n'
_SEG_OLD = "            segment_val = val.segments.get(key, val.raw_segments.get(key))  # type: ignore\n"

VARIANTS += [
    {"name": "R8 parse-side skip on an emitted enum member", "file": INV, "expect": "C20.R8",
     "old": _SKIP_OLD, "new": '        if obj_dict.get("type") in (AssetType.UNKNOWN, AssetType.NONE):\n'},
    {"name": "R8 parse-side skip on the member's integer value", "file": INV, "expect": "C20.R8",
     "old": _SKIP_OLD, "new": '        if "type" in obj_dict and obj_dict["type"] == -1:\n'},
    {"name": "R8 parse-side skip unless the type is one member", "file": INV, "expect": "C20.R8",
     "old": _SKIP_OLD, "new": '        if obj_dict.get("type") != AssetType.CATEGORY:\n'},
    {"name": "P R8 dead wire-string guard spelt differently", "file": INV, "expect": "silent",
     "old": _SKIP_OLD, "new": '        node_type = obj_dict.get("type", None)\n        if "-1" == obj_dict.get("type", None):\n'},
    {"name": "P R8 dead guard removed", "file": INV, "expect": "silent",
     "old": _SKIP_OLD + '            LOG.warning(f"Skipping bad object with type == -1: {obj_dict!r}")\n            return None\n',
     "new": ""},
    {"name": "R9 raw bytes looked up first, parsed as fallback (if form)", "file": MESH, "expect": "C20.R9",
     "old": _SEG_OLD,
     "new": "            segment_val = val.raw_segments.get(key)\n            if segment_val is None:\n"
            "                segment_val = val.segments.get(key)\n"},
    {"name": "R9 raw bytes win whenever present", "file": MESH, "expect": "C20.R9",
     "old": _SEG_OLD,
     "new": "            segment_val = val.raw_segments[key] if key in val.raw_segments else val.segments.get(key)\n"},
    {"name": "P R9 parsed first, raw fallback (if form)", "file": MESH, "expect": "silent",
     "old": _SEG_OLD,
     "new": "            segment_val = val.segments.get(key)\n            if segment_val is None:\n"
            "                segment_val = val.raw_segments.get(key)\n"},
    {"name": "P R9 parsed first, raw fallback (membership form)", "file": MESH, "expect": "silent",
     "old": _SEG_OLD,
     "new": "            if key in val.segments:\n                segment_val = val.segments[key]\n"
            "            else:\n                segment_val = val.raw_segments.get(key)\n"},
    {"name": "P R1 lookup bodies in shared module-level helpers", "expect": "silent",
     "edits": [{"file": TEMPL, "old": "_ASSET_TYPE_BIDI: BiDiDict[str] = BiDiDict({\n",
                "new": "def _to_legacy(m, table):\n    n = m.name.lower()\n    return table.forward.get(n, n)\n\n\n"
                       "def _from_legacy(klass, table, text):\n    return klass[table.backward.get(text, text).upper()]\n\n\n"
                       "_ASSET_TYPE_BIDI: BiDiDict[str] = BiDiDict({\n"},
               {"file": TEMPL, "old": "        lower = self.name.lower()\n        return _ASSET_TYPE_BIDI.forward.get(lower, lower)",
                "new": "        return _to_legacy(self, _ASSET_TYPE_BIDI)"},
               {"file": TEMPL, "old": "        reg_name = _ASSET_TYPE_BIDI.backward.get(legacy_name, legacy_name).upper()\n        return cls[reg_name]",
                "new": "        return _from_legacy(cls, _ASSET_TYPE_BIDI, legacy_name)"}]},
    {"name": "R1 shared helper consults the wrong direction", "expect": "C20.R1",
     "edits": [{"file": TEMPL, "old": "_ASSET_TYPE_BIDI: BiDiDict[str] = BiDiDict({\n",
                "new": "def _from_legacy(klass, table, text):\n    return klass[table.forward.get(text, text).upper()]\n\n\n"
                       "_ASSET_TYPE_BIDI: BiDiDict[str] = BiDiDict({\n"},
               {"file": TEMPL, "old": "        reg_name = _ASSET_TYPE_BIDI.backward.get(legacy_name, legacy_name).upper()\n        return cls[reg_name]",
                "new": "        return _from_legacy(cls, _ASSET_TYPE_BIDI, legacy_name)"}]},
    {"name": "R6 factory-built switch with a stray version key", "expect": "C20.R6",
     "edits": [{"file": ANIM, "old": "def _get_version_from_context(",
                "new": "def _switch(old, new):\n    return se.ContextSwitch(_get_version_from_context, {(0, 1): old, (1, 1): new})\n\n\n"
                       "def _get_version_from_context("},
               {"file": ANIM, "old": "    pos: Vector3 = se.dataclass_field(se.ContextSwitch(\n        _get_version_from_context,\n        {\n"
                                     "            (0, 1): se.Vector3,\n            (1, 0): se.Vector3U16(-5.0, 5.0),\n        },\n    ))",
                "new": "    pos: Vector3 = se.dataclass_field(_switch(se.Vector3, se.Vector3U16(-5.0, 5.0)))"}]},
]

VARIANTS += [
    {"name": "P R5 completion test hoisted into a named local", "file": TRANSFER, "expect": "silent",
     "old": "        if not transfer.done() and len(transfer.chunks) == transfer.expected_chunks:\n            transfer.mark_done()",
     "new": "        have_all = len(transfer.chunks) == transfer.expected_chunks\n"
            "        if not transfer.done() and have_all:\n            transfer.mark_done()"},
    {"name": "R5 completion also on an alternative that ignores the chunk count", "file": XFER, "expect": "C20.R5",
     "old": "        if not xfer.done() and len(xfer.chunks) == xfer.expected_chunks:\n            xfer.mark_done()",
     "new": "        if not xfer.done() and (len(xfer.chunks) == xfer.expected_chunks or packet_id.IsEOF):\n            xfer.mark_done()"},
]

# ---------------------------------------------------------------------- round 4
_AIS_LINK_OLD = """            if val.get("type") == AssetType.LINK and "asset_id" in val:
                # For link items, there is no asset, only a linked ID.
                val["linked_id"] = val.pop("asset_id")
                # These don't exist either
                val.pop("permissions", None)
                val.pop("sale_info", None)
        return val
"""
_SEG_READ_OLD = "            if key in self._templates:\n                reader = se.BufferReader(\"<\", val)\n"

VARIANTS += [
    {"name": "R10 AIS writer elides another schema field", "file": INV, "expect": "C20.R10",
     "old": '                val.pop("sale_info", None)\n        return val\n',
     "new": '                val.pop("sale_info", None)\n                val.pop("desc", None)\n        return val\n'},
    {"name": "R10 elision extended to a further asset type", "file": INV, "expect": "C20.R10",
     "old": '            if val.get("type") == AssetType.LINK and "asset_id" in val:\n',
     "new": '            if val.get("type") in {AssetType.LINK, AssetType.LANDMARK} and "asset_id" in val:\n'},
    {"name": "R10 reader no longer maps the re-keyed id back", "file": INV, "expect": "C20.R10",
     "old": '            inv_dict["asset_id"] = inv_dict.pop("linked_id")\n', "new": '            inv_dict.pop("linked_id")\n'},
    {"name": "P R10 link shaping behind a guard clause", "file": INV, "expect": "silent",
     "old": _AIS_LINK_OLD,
     "new": """            if val.get("type") != AssetType.LINK or "asset_id" not in val:
                return val
            # For link items, there is no asset, only a linked ID.
            linked = val.pop("asset_id")
            val["linked_id"] = linked
            for gone in ():
                pass
            val.pop("permissions", None)
            val.pop("sale_info", None)
        return val
"""},
    {"name": "R11 reader skips unpacking when the wire value has no length", "file": MESH, "expect": "C20.R11",
     "old": _SEG_READ_OLD, "new": "            if key in self._templates and len(val) > 0:\n                reader = se.BufferReader(\"<\", val)\n"},
    {"name": "R11 reader unpacks under another table than the writer packs", "file": MESH, "expect": "C20.R11",
     "old": "                new_segment[key] = reader.read(self._templates[key])",
     "new": "                new_segment[key] = reader.read(self._fallbacks[key])"},
    {"name": "P R11 guard-clause reader with a type guard", "file": MESH, "expect": "silent",
     "old": _SEG_READ_OLD,
     "new": "            if key not in self._templates or not isinstance(val, (bytes, bytearray)):\n"
            "                new_segment[key] = val\n                continue\n"
            "            if True:\n                reader = se.BufferReader(\"<\", val)\n"},
    {"name": "P R2 conversions moved into one-argument helpers", "expect": "silent",
     "edits": [{"file": SCHEMA, "old": "class SchemaFieldSerializer(abc.ABC, Generic[_T]):\n",
                "new": "_BAR = \"|\"\n\n\ndef _epoch(d):\n    return calendar.timegm(d.utctimetuple())\n\n\n"
                       "def _before_bar(text):\n    head = text.partition(_BAR)\n    return head[0]\n\n\n"
                       "class SchemaFieldSerializer(abc.ABC, Generic[_T]):\n"},
               {"file": SCHEMA, "old": "        return str(calendar.timegm(val.utctimetuple()))", "new": "        return str(_epoch(val))"},
               {"file": SCHEMA, "old": "        return val.partition(\"|\")[0]\n", "new": "        return _before_bar(val)\n"},
               {"file": SCHEMA, "old": "        return val + \"|\"", "new": "        return val + \"\" + _BAR"}]},
    {"name": "R2 helper converts through local time", "expect": "C20.R2",
     "edits": [{"file": SCHEMA, "old": "class SchemaFieldSerializer(abc.ABC, Generic[_T]):\n",
                "new": "def _from_epoch(n):\n    return dt.datetime.fromtimestamp(n)\n\n\nclass SchemaFieldSerializer(abc.ABC, Generic[_T]):\n"},
               {"file": SCHEMA, "old": "        return dt.datetime.utcfromtimestamp(val)", "new": "        return _from_epoch(val)"}]},
    {"name": "P R3 AIS renames from a class-level table applied in a loop", "expect": "silent",
     "edits": [{"file": INV, "old": "    VERSION_NONE: ClassVar[int] = -1\n",
                "new": "    VERSION_NONE: ClassVar[int] = -1\n    _AIS_KEYS: ClassVar[Dict[str, str]] = "
                       "{\"preferred_type\": \"type_default\", \"owner_id\": \"agent_id\", \"cat_id\": \"category_id\"}\n"},
               {"file": INV, "old": '            fields["type_default"] = fields.pop("preferred_type")\n            fields["agent_id"] = fields.pop("owner_id")\n'
                                    '            fields["category_id"] = fields.pop("cat_id")\n',
                "new": "            for old_key, new_key in cls._AIS_KEYS.items():\n                fields[new_key] = fields.pop(old_key)\n"}]},
    {"name": "R3 rename table names a key that is not in the table", "expect": "C20.R3",
     "edits": [{"file": INV, "old": "    VERSION_NONE: ClassVar[int] = -1\n",
                "new": "    VERSION_NONE: ClassVar[int] = -1\n    _AIS_KEYS: ClassVar[Tuple[Tuple[str, str], ...]] = "
                       "((\"pref_type\", \"type_default\"), (\"owner_id\", \"agent_id\"), (\"cat_id\", \"category_id\"))\n"},
               {"file": INV, "old": '            fields["type_default"] = fields.pop("preferred_type")\n            fields["agent_id"] = fields.pop("owner_id")\n'
                                    '            fields["category_id"] = fields.pop("cat_id")\n',
                "new": "            for old_key, new_key in cls._AIS_KEYS:\n                fields[new_key] = fields.pop(old_key)\n"}]},
]

# ---------------------------------------------------------------------- R10 class-invariant refinement
VARIANTS += [
    {"name": "R10 a construction site builds a category of another type", "file": INV, "expect": "C20.R10",
     "old": '            name=block["Name"],\n            type=AssetType.CATEGORY,\n',
     "new": '            name=block["Name"],\n            type=AssetType.OBJECT,\n'},
    {"name": "R10 reader restores another constant than the constructions use", "file": INV, "expect": "C20.R10",
     "old": '            inv_dict["type"] = AssetType.CATEGORY\n', "new": '            inv_dict["type"] = AssetType.OBJECT\n'},
    {"name": "P R10 keyword order changed and a further CATEGORY construction", "file": INV, "expect": "silent",
     "old": '            name=block["Name"],\n            type=AssetType.CATEGORY,\n        )\n',
     "new": '            type=AssetType.CATEGORY,\n            name=block["Name"],\n        )\n\n'
            '    @classmethod\n    def make_empty(cls, label: str):\n'
            '        return cls(cat_id=UUID.random(), parent_id=UUID.ZERO, pref_type=FolderType.NONE, name=label,\n'
            '                   type=AssetType.CATEGORY)\n'},
]

# ---------------------------------------------------------------------- round 5 (iterator-style rewrites)
_WEIGHTS_BODY_OLD = """        influence_list = []
        for _ in range(cls.INFLUENCE_LIMIT):
            joint_idx = reader.read_bytes(1)[0]
            if joint_idx == cls.INFLUENCE_TERM:
                break
            weight = reader.read(se.U16, ctx=ctx) / 0xFFff
            influence_list.append(VertexWeight(joint_idx, weight))
        return influence_list
"""

VARIANTS += [
    {"name": "R4 range-stepped windows wider than the step", "expect": "C20.R4",
     "edits": [{"file": XFER, "old": _SENDER_LOOP_OLD,
                "new": "            for chunk_num, begin in enumerate(range(0, len(data), MAX_CHUNK_SIZE)):\n"
                       "                self.chunks[chunk_num] = data[begin:begin + MAX_CHUNK_SIZE + 1]\n"}]},
    {"name": "R4 range stop taken from the payload before the prefix", "expect": "C20.R4",
     "edits": [{"file": XFER, "old": _PREFIX_COMMENT, "new": "            payload_len = len(data)\n" + _PREFIX_COMMENT},
               {"file": XFER, "old": _SENDER_LOOP_OLD,
                "new": "            for chunk_num, begin in enumerate(range(0, payload_len, MAX_CHUNK_SIZE)):\n"
                       "                self.chunks[chunk_num] = data[begin:begin + MAX_CHUNK_SIZE]\n"}]},
    {"name": "P R4 range-stepped windows over the prefixed buffer", "expect": "silent",
     "edits": [{"file": XFER, "old": _SENDER_LOOP_OLD,
                "new": "            for begin in range(0, len(data), MAX_CHUNK_SIZE):\n"
                       "                self.chunks[begin // MAX_CHUNK_SIZE] = data[begin:begin + MAX_CHUNK_SIZE]\n"}]},
    {"name": "R7 sentinel iterator consumed without a count bound", "file": MESH, "expect": "C20.R7",
     "old": _WEIGHTS_BODY_OLD,
     "new": "        idx_iter = iter(lambda: reader.read_bytes(1)[0], cls.INFLUENCE_TERM)\n"
            "        return [VertexWeight(j, reader.read(se.U16, ctx=ctx) / 0xFFff) for j in idx_iter]\n"},
    {"name": "R7 islice bound differs from the writer's elision count", "file": MESH, "expect": "C20.R7",
     "old": _WEIGHTS_BODY_OLD,
     "new": "        idx_iter = iter(lambda: reader.read_bytes(1)[0], cls.INFLUENCE_TERM)\n"
            "        return [VertexWeight(j, reader.read(se.U16, ctx=ctx) / 0xFFff)\n"
            "                for j in itertools.islice(idx_iter, cls.INFLUENCE_LIMIT - 1)]\n"},
    {"name": "P R7 sentinel iterator bounded by islice at the limit", "file": MESH, "expect": "silent",
     "old": _WEIGHTS_BODY_OLD,
     "new": "        out = []\n"
            "        for j in itertools.islice(iter(lambda: reader.read_bytes(1)[0], cls.INFLUENCE_TERM), cls.INFLUENCE_LIMIT):\n"
            "            out.append(VertexWeight(j, reader.read(se.U16, ctx=ctx) / 0xFFff))\n        return out\n"},
    {"name": "R3 EAFP reader keeps the wire key", "file": SCHEMA, "expect": "C20.R3",
     "old": "            if key in fields:\n                field: dataclasses.Field = fields[key]\n                key = field.name\n",
     "new": "            try:\n                field: dataclasses.Field = fields[key]\n            except KeyError:\n                continue\n"
            "            if True:\n"},
]

# ---------------------------------------------------------------------- round 6 (order / faults)
VARIANTS += [
    {"name": "R12 Xfer size future resolved on every packet 0", "file": XFER, "expect": "C20.R12",
     "old": "            if not xfer.size_known.done():\n                xfer.size_known.set_result(xfer.expected_size)\n",
     "new": "            xfer.size_known.set_result(xfer.expected_size)\n"},
    {"name": "R12 guard tests another future than the one resolved", "file": TRANSFER, "expect": "C20.R12",
     "old": "        if not transfer.size_known.done():\n            transfer.size_known.set_result(transfer.expected_size)",
     "new": "        if not transfer.done():\n            transfer.size_known.set_result(transfer.expected_size)"},
    {"name": "P R12 guarded resolution moved into a helper", "file": TRANSFER, "expect": "silent",
     "old": "        if not transfer.size_known.done():\n            transfer.size_known.set_result(transfer.expected_size)\n",
     "new": "        self._announce_size(transfer)\n"
            "        self._check_status(transfer, transfer_block)\n\n"
            "    @staticmethod\n    def _announce_size(transfer: Transfer):\n"
            "        if transfer.size_known.done():\n            return\n"
            "        transfer.size_known.set_result(transfer.expected_size)\n\n"
            "    def _check_status(self, transfer: Transfer, transfer_block):\n"},
    {"name": "R13 empty packets returned before the chunk store", "file": TRANSFER, "expect": "C20.R13",
     "old": "        transfer.chunks[packet_id] = packet_data\n",
     "new": "        if not packet_data:\n            return\n        transfer.chunks[packet_id] = packet_data\n"},
    {"name": "R13 return between the store and the completion test", "file": XFER, "expect": "C20.R13",
     "old": "        # We may be waiting on other packets so we can't end immediately.\n",
     "new": "        if packet_id.PacketID < xfer.next_ackable - ACK_AHEAD_MAX:\n            return\n"
            "        # We may be waiting on other packets so we can't end immediately.\n"},
    {"name": "P R13 early return for a finished transfer or a held chunk", "file": TRANSFER, "expect": "silent",
     "old": "        transfer.chunks[packet_id] = packet_data\n",
     "new": "        if transfer.done():\n            return\n        if packet_id in transfer.chunks:\n            return\n"
            "        transfer.chunks[packet_id] = packet_data\n"},
]

# ---------------------------------------------------------------------- round 7
MSGHANDLER = "hippolyzer/lib/base/message/message_handler.py"
_LLSD_SER_OLD = "        # Don't include the XML header\n"
_LLSD_DES_OLD = "        return llsd.parse_xml(val.partition(\"|\")[0].encode(\"utf8\"))\n"
_UNDEF = "<llsd><undef /></llsd>"

VARIANTS += [
    {"name": "R2 constant fast path taken for every falsy metadata value", "file": SCHEMA, "expect": "C20.R2",
     "old": _LLSD_SER_OLD,
     "new": "        if not val:\n            return \"" + _UNDEF + "\\n|\"\n" + _LLSD_SER_OLD},
    {"name": "R2 reader fast path restores another value than the writer's", "expect": "C20.R2",
     "edits": [{"file": SCHEMA, "old": _LLSD_SER_OLD,
                "new": "        if val is None:\n            return \"" + _UNDEF + "\\n|\"\n" + _LLSD_SER_OLD},
               {"file": SCHEMA, "old": _LLSD_DES_OLD,
                "new": "        val = val.partition(\"|\")[0].strip()\n        if val == \"" + _UNDEF + "\":\n            return {}\n"
                       "        return llsd.parse_xml(val.encode(\"utf8\"))\n"}]},
    {"name": "P R2 constant fast path for the absent value on both sides", "expect": "silent",
     "edits": [{"file": SCHEMA, "old": _LLSD_SER_OLD,
                "new": "        if val is None:\n            return \"" + _UNDEF + "\\n|\"\n" + _LLSD_SER_OLD},
               {"file": SCHEMA, "old": _LLSD_DES_OLD,
                "new": "        val = val.partition(\"|\")[0].strip()\n        if val == \"" + _UNDEF + "\":\n            return None\n"
                       "        return llsd.parse_xml(val.encode(\"utf8\"))\n"}]},
    {"name": "R14 subscriber queue gets a capacity", "file": MSGHANDLER, "expect": "C20.R14",
     "old": "        msg_queue = asyncio.Queue()\n", "new": "        msg_queue = asyncio.Queue(128)\n"},
    {"name": "R14 handler skips enqueueing under load", "file": MSGHANDLER, "expect": "C20.R14",
     "old": "            msg_queue.put_nowait(message)\n",
     "new": "            if msg_queue.qsize() < 1000:\n                msg_queue.put_nowait(message)\n"},
    {"name": "P R14 handler logs, then enqueues on both branches", "file": MSGHANDLER, "expect": "silent",
     "old": "            if take:\n                message = message.take()\n            msg_queue.put_nowait(message)\n",
     "new": "            if take:\n                msg_queue.put_nowait(message.take())\n            else:\n"
            "                msg_queue.put_nowait(message)\n"},
    {"name": "P R4 chunk table built by a module-level comprehension helper", "expect": "silent",
     "edits": [{"file": XFER, "old": "class Xfer:\n",
                "new": "def _cut(buf):\n    return {n: buf[o:o + MAX_CHUNK_SIZE] for n, o in enumerate(range(0, len(buf), MAX_CHUNK_SIZE))}\n\n\nclass Xfer:\n"},
               {"file": XFER, "old": _SENDER_LOOP_OLD, "new": "            self.chunks = _cut(data)\n"}]},
    {"name": "R4 comprehension helper fed the payload before the prefix", "expect": "C20.R4",
     "edits": [{"file": XFER, "old": "class Xfer:\n",
                "new": "def _cut(buf):\n    return {n: buf[o:o + MAX_CHUNK_SIZE] for n, o in enumerate(range(0, len(buf), MAX_CHUNK_SIZE))}\n\n\nclass Xfer:\n"},
               {"file": XFER, "old": _PREFIX_COMMENT, "new": "            self.chunks = _cut(data)\n" + _PREFIX_COMMENT},
               {"file": XFER, "old": _SENDER_LOOP_OLD, "new": ""}]},
    {"name": "R3 comprehension-built dispatch table over a class list missing one node type", "expect": "C20.R3",
     "edits": [{"file": INV, "old": _MODEL_READER_OLD, "new": _MODEL_READER_TABLE},
               {"file": INV, "old": _TYPES_LINE,
                "new": _TYPES_LINE + "_TEXT_NODE_TYPES = (InventoryObject, InventoryItem)\n"
                                     "_READERS = {t.SCHEMA_NAME: t for t in _TEXT_NODE_TYPES}\n"}]},
]

# ---------------------------------------------------------------------- round 8
_PREFIX_IF = "            if not isinstance(data, RawBytes):\n"

VARIANTS += [
    {"name": "R2 reader shortcut maps the empty-map document to None", "file": SCHEMA, "expect": "C20.R2",
     "old": _LLSD_DES_OLD,
     "new": "        val = val.partition(\"|\")[0].strip()\n        if val == \"<llsd><map /></llsd>\":\n            return None\n"
            "        return llsd.parse_xml(val.encode(\"utf8\"))\n"},
    {"name": "R2 reader shortcut returns an empty map for the undef document", "file": SCHEMA, "expect": "C20.R2",
     "old": _LLSD_DES_OLD,
     "new": "        val = val.partition(\"|\")[0].strip()\n        if val in (\"<llsd><undef /></llsd>\", \"<llsd><undef/></llsd>\"):\n            return {}\n"
            "        return llsd.parse_xml(val.encode(\"utf8\"))\n"},
    {"name": "P R2 reader shortcut for both spellings of the undef document", "file": SCHEMA, "expect": "silent",
     "old": _LLSD_DES_OLD,
     "new": "        val = val.partition(\"|\")[0].strip()\n        if val in {\"<llsd><undef /></llsd>\", \"<llsd><undef/></llsd>\"}:\n            return None\n"
            "        return llsd.parse_xml(val.encode(\"utf8\"))\n"},
    {"name": "R4 payload copied into a bytearray before the RawBytes test", "file": XFER, "expect": "C20.R4",
     "old": _PREFIX_COMMENT, "new": "            data = bytearray(data)\n" + _PREFIX_COMMENT},
    {"name": "P R4 payload snapshotted only when it is not bytes already", "file": XFER, "expect": "silent",
     "old": _PREFIX_COMMENT, "new": "            if not isinstance(data, bytes):\n                data = bytes(data)\n" + _PREFIX_COMMENT},
    {"name": "P R4 payload snapshotted inside the framing branch", "file": XFER, "expect": "silent",
     "old": "                data = TemplateDataPacker.pack(len(data), MsgType.MVT_S32) + data\n",
     "new": "                data = TemplateDataPacker.pack(len(data), MsgType.MVT_S32) + bytes(data)\n"},
    {"name": "R11 unpack predicate helper also tests the wire value", "expect": "C20.R11",
     "edits": [{"file": MESH, "old": _SEG_READ_OLD,
                "new": "            if self._should_unpack(key, val):\n                reader = se.BufferReader(\"<\", val)\n"},
               {"file": MESH, "old": "    def serialize(self, vals: Dict[str, Any]):\n        new_segment = {}\n",
                "new": "    def _should_unpack(self, name, raw) -> bool:\n        return name in self._templates and len(raw) > 0\n\n"
                       "    def serialize(self, vals: Dict[str, Any]):\n        new_segment = {}\n"}]},
    {"name": "P R11 membership predicates extracted on both sides", "expect": "silent",
     "edits": [{"file": MESH, "old": _SEG_READ_OLD, "new": "            if self._templated(key):\n                reader = se.BufferReader(\"<\", val)\n"},
               {"file": MESH, "old": "            if key in self._templates and not isinstance(val, bytes):\n",
                "new": "            if self._templated(key) and not isinstance(val, bytes):\n"},
               {"file": MESH, "old": "    def serialize(self, vals: Dict[str, Any]):\n        new_segment = {}\n",
                "new": "    def _templated(self, name) -> bool:\n        return name in self._templates\n\n"
                       "    def serialize(self, vals: Dict[str, Any]):\n        new_segment = {}\n"}]},
]

# ---------------------------------------------------------------------- follow-up: text-form limits
VARIANTS += [
    {"name": "R2 another verbatim free-text serializer used by a field", "file": INV, "expect": "C20.R2",
     "old": "    desc: Optional[str] = schema_field(SchemaMultilineStr, default=None)",
     "new": "    desc: Optional[str] = schema_field(SchemaStr, default=None)"},
    {"name": "R3 a further field marked llsd_only", "file": INV, "expect": "C20.R3",
     "old": "    owner_id: Optional[UUID] = schema_field(SchemaUUID, default=None)\n    version:",
     "new": "    owner_id: Optional[UUID] = schema_field(SchemaUUID, default=None, llsd_only=True)\n    version:"},
    {"name": "P R3 keyword order of an llsd_only field", "file": INV, "expect": "silent",
     "old": "schema_field(SchemaInt, default=VERSION_NONE, llsd_only=True)", "new": "schema_field(SchemaInt, llsd_only=True, default=VERSION_NONE)"},
    {"name": "R2 metadata XML written verbatim again (revert of D46)", "file": SCHEMA, "expect": "C20.R2",
     "old": '        xml = xml.replace("|", "&#124;").replace("\\n", "&#10;").replace("\\t", "&#9;").replace("\\r", "&#13;")\n',
     "new": ""},
    {"name": "R2 metadata escape forgets the tab", "file": SCHEMA, "expect": "C20.R2",
     "old": '.replace("\\n", "&#10;").replace("\\t", "&#9;").replace("\\r", "&#13;")',
     "new": '.replace("\\n", "&#10;").replace("\\r", "&#13;")'},
    {"name": "P R2 metadata escape as one expression on the return", "file": SCHEMA, "expect": "silent",
     "old": '        xml = xml.replace("|", "&#124;").replace("\\n", "&#10;").replace("\\t", "&#9;").replace("\\r", "&#13;")\n        return xml + "\\n|"',
     "new": '        return xml.replace("\\r", "&#13;").replace("\\t", "&#9;").replace("\\n", "&#10;").replace("|", "&#124;") + "\\n|"'},
]

# ---------------------------------------------------------------------- audit round (anchored on the FIXED text: the
# breaking ones are inapplicable until the fix: commits are in /repo)
WEARABLES = "hippolyzer/lib/base/wearables.py"
_AIS_GUARD_FIXED = '            if val.get("type") == AssetType.LINK and "asset_id" in val:\n'
_PARENT_DEFAULT_FIXED = '        obj_dict.setdefault("parent_id", None)\n'

VARIANTS += [
    {"name": "R10 AIS post-processing indexes the optional type again (revert)", "file": INV, "expect": "C20.R10",
     "old": _AIS_GUARD_FIXED, "new": '            if val["type"] == AssetType.LINK:\n'},
    {"name": "P R10 optional type read into a local, presence test kept", "file": INV, "expect": "silent",
     "old": _AIS_GUARD_FIXED,
     "new": '            node_type = val.get("type")\n            if "asset_id" in val and node_type == AssetType.LINK:\n'},
    {"name": "R8 parentless nodes are not defaulted by the reader again (revert)", "file": INV, "expect": "C20.R8",
     "old": _PARENT_DEFAULT_FIXED, "new": ""},
    {"name": "P R8 parent_id defaulted by an explicit membership test", "file": INV, "expect": "silent",
     "old": _PARENT_DEFAULT_FIXED,
     "new": '        if "parent_id" not in obj_dict:\n            obj_dict["parent_id"] = None\n'},
    {"name": "R2 line pattern back to Unicode whitespace (revert)", "file": SCHEMA, "expect": "C20.R2",
     "old": "(\\s+([^\\t\\r\\n]+))?$', re.ASCII)", "new": "(\\s+([^\\t\\r\\n]+))?$')"},
    {"name": "R2 line strip back to Unicode whitespace (revert)", "file": INV, "expect": "C20.R2",
     "old": '        line = line.strip(" \\t\\r\\n\\x0b\\x0c")\n', "new": "        line = line.strip()\n"},
    {"name": "P R2 ASCII flag spelt re.A as a keyword", "file": SCHEMA, "expect": "silent",
     "old": "(\\s+([^\\t\\r\\n]+))?$', re.ASCII)", "new": "(\\s+([^\\t\\r\\n]+))?$', flags=re.A)"},
    {"name": "R15 wearable reader skips blank lines before the name again (revert)", "file": WEARABLES, "expect": "C20.R15",
     "old": "        # The name is the line right after the version, and it may be empty\n",
     "new": "        cls._skip_to_next_populated_line(reader)\n"},
]

# ---------------------------------------------------------------------- second audit round (anchored on the FIXED text)
_NAME_READ_FIXED = '        name = reader.readline().rstrip("\\r\\n")\n'
_DATE_READ_FIXED = '            creation_date=SchemaDate.from_llsd(block["CreationDate"], "legacy"),\n'

VARIANTS += [
    {"name": "R15 wearable name line stripped of every trailing blank again (revert)", "file": WEARABLES, "expect": "C20.R15",
     "old": _NAME_READ_FIXED, "new": "        name = reader.readline().rstrip()\n"},
    {"name": "R15 wearable name line stripped on both ends", "file": WEARABLES, "expect": "C20.R15",
     "old": _NAME_READ_FIXED, "new": '        name = reader.readline().strip("\\r\\n")\n'},
    {"name": "P R15 wearable name terminator removed as a suffix, through a local", "file": WEARABLES, "expect": "silent",
     "old": _NAME_READ_FIXED, "new": '        raw_name = reader.readline()\n        name = raw_name.removesuffix("\\n")\n'},
    {"name": "R16 block constructor stores the raw creation date again (revert)", "file": INV, "expect": "C20.R16",
     "old": _DATE_READ_FIXED, "new": '            creation_date=block["CreationDate"],\n'},
    {"name": "R16 block constructor parses the date with the text codec", "file": INV, "expect": "C20.R16",
     "old": _DATE_READ_FIXED, "new": '            creation_date=SchemaDate.deserialize(block["CreationDate"]),\n'},
    {"name": "P R16 date conversion hoisted into a local before the constructor", "file": INV, "expect": "silent",
     "edits": [{"file": INV, "old": _DATE_READ_FIXED, "new": "            creation_date=created,\n"},
               {"file": INV, "old": "    def from_inventory_data(cls, block: Block):\n",
                "new": "    def from_inventory_data(cls, block: Block):\n"
                       "        created = SchemaDate.from_llsd(block[\"CreationDate\"], \"legacy\")\n"}]},
]

# ---------------------------------------------------------------------- refactor round 8 twins
_FLAG_FROM_OLD = """        if isinstance(val, int):
            return val

        if flavor == "legacy":
            return struct.unpack("!I", val)[0]
        return val
"""

VARIANTS += [
    {"name": "P R2 flag reader with one or-guarded early return and a precompiled struct", "expect": "silent",
     "edits": [{"file": INV, "old": _FLAG_FROM_OLD,
                "new": "        if flavor != \"legacy\" or isinstance(val, int):\n            return val\n        return _FLAGS_STRUCT.unpack(val)[0]\n"},
               {"file": INV, "old": "            return struct.pack(\"!I\", val)\n", "new": "            return _FLAGS_STRUCT.pack(val)\n"},
               {"file": INV, "old": "class SchemaFlagField(SchemaHexInt):\n",
                "new": "_FLAGS_STRUCT = struct.Struct(\"!I\")\n\n\nclass SchemaFlagField(SchemaHexInt):\n"}]},
    {"name": "R2 precompiled structs of different byte order on the two sides", "expect": "C20.R2",
     "edits": [{"file": INV, "old": "            return struct.unpack(\"!I\", val)[0]\n", "new": "            return _FLAGS_IN.unpack(val)[0]\n"},
               {"file": INV, "old": "class SchemaFlagField(SchemaHexInt):\n",
                "new": "_FLAGS_IN = struct.Struct(\"<I\")\n\n\nclass SchemaFlagField(SchemaHexInt):\n"}]},
    {"name": "P R2 line strip moved into a helper generator of the tokeniser", "expect": "silent",
     "edits": [{"file": INV, "old": "def _yield_schema_tokens(reader: StringIO):\n",
                "new": "def _populated_lines(reader: StringIO):\n    while raw := reader.readline():\n"
                       "        stripped = raw.strip(\" \\t\\r\\n\\x0b\\x0c\")\n        if stripped:\n            yield stripped\n\n\n"
                       "def _yield_schema_tokens(reader: StringIO):\n    for _unused in ():\n        yield from _populated_lines(reader)\n"}]},
]

# ---------------------------------------------------------------------- round 9
VARIANTS += [
    {"name": "R2 wearable reader takes its lines from splitlines()", "file": WEARABLES, "expect": "C20.R2",
     "old": "    def from_reader(cls, reader: StringIO) -> Wearable:\n",
     "new": "    def from_reader(cls, reader: StringIO) -> Wearable:\n"
            "        reader = StringIO(\"\\n\".join(reader.read().splitlines()) + \"\\n\")\n"},
    {"name": "P R2 text normalised by replacing CRLF only", "file": SCHEMA, "expect": "silent",
     "old": "        return cls.from_reader(StringIO(text))\n",
     "new": "        return cls.from_reader(StringIO(text.replace(\"\\r\\n\", \"\\n\")))\n"},
    {"name": "P R4 chunk table from enumerate(to_chunks(...))", "expect": "silent",
     "edits": [{"file": XFER, "old": _SENDER_LOOP_OLD, "new": "            self.chunks = dict(enumerate(to_chunks(data, MAX_CHUNK_SIZE)))\n"},
               {"file": XFER, "old": "from hippolyzer.lib.base.helpers import create_logged_task\n",
                "new": "from hippolyzer.lib.base.helpers import create_logged_task, to_chunks\n"}]},
    {"name": "R4 to_chunks fed the payload before the prefix", "expect": "C20.R4",
     "edits": [{"file": XFER, "old": _PREFIX_COMMENT, "new": "            self.chunks.update(enumerate(to_chunks(data, MAX_CHUNK_SIZE)))\n" + _PREFIX_COMMENT},
               {"file": XFER, "old": _SENDER_LOOP_OLD, "new": ""},
               {"file": XFER, "old": "from hippolyzer.lib.base.helpers import create_logged_task\n",
                "new": "from hippolyzer.lib.base.helpers import create_logged_task, to_chunks\n"}]},
    {"name": "P R5 completion test moved onto the transfer object", "expect": "silent",
     "edits": [{"file": TRANSFER, "old": "        if not transfer.done() and len(transfer.chunks) == transfer.expected_chunks:\n            transfer.mark_done()\n",
                "new": "        transfer.finish_if_all_here()\n"},
               {"file": TRANSFER, "old": "    def mark_done(self):\n",
                "new": "    def finish_if_all_here(self):\n        if self.done():\n            return\n"
                       "        if len(self.chunks) == self.expected_chunks:\n            self.mark_done()\n\n    def mark_done(self):\n"}]},
    {"name": "R5 object-side completion ignores the chunk count", "expect": "C20.R5",
     "edits": [{"file": TRANSFER, "old": "        if not transfer.done() and len(transfer.chunks) == transfer.expected_chunks:\n            transfer.mark_done()\n",
                "new": "        transfer.finish_if_all_here()\n"},
               {"file": TRANSFER, "old": "    def mark_done(self):\n",
                "new": "    def finish_if_all_here(self):\n        if not self.done() and self.expected_chunks is not None:\n"
                       "            self.mark_done()\n\n    def mark_done(self):\n"}]},
    {"name": "P R11 templated spec handed to a per-field reader helper", "expect": "silent",
     "edits": [{"file": MESH, "old": "                reader = se.BufferReader(\"<\", val)\n                new_segment[key] = reader.read(self._templates[key])\n",
                "new": "                reader = se.BufferReader(\"<\", val)\n                new_segment[key] = self._unpack(reader, self._templates[key])\n"},
               {"file": MESH, "old": "    def deserialize(self, vals: Dict[str, Any]):\n        new_segment = {}\n",
                "new": "    @staticmethod\n    def _unpack(stream, template):\n        return stream.read(template)\n\n"
                       "    def deserialize(self, vals: Dict[str, Any]):\n        new_segment = {}\n"}]},
]
