"""hipposa.structlint - declarative-integrity lints (rule id `<prop>.P2`).

The statement-level rules of a property look at the control flow of its anchored functions.  Independent seeding
rounds showed a second family of realistic regressions that leave every statement of those functions alone and
change a *declaration* instead.  Each lint below decides one such mechanism as a structural necessary condition of
"the code of this property behaves per instance / per call as written":

  shared-class-state   a class-level mutable object (list/dict/set/deque/...) that methods mutate in place through
                       `self.<name>` although no constructor of the class gives each instance its own: every
                       instance then shares one container (per-circuit / per-region / per-transfer state leaks)
  stateful-cache       functools cache on a method whose result depends on instance state that is written after
                       construction (the first answer, including a negative one, is served forever)
  override-signature   an overriding method that no longer accepts a call shape its base-class method accepts
                       (more required parameters, a defaulted parameter lost): calls made through the base
                       class's own code raise TypeError
  copy-protocol        a hand-written __copy__/__deepcopy__/__getstate__/__reduce__ that does not mention an
                       attribute the constructor sets (copies silently lose it)
  builtin-eq-ne        a subclass of a builtin value type that overrides __eq__ without __ne__ (the builtin's own
                       __ne__ is then used: `a == b` and `a != b` can both be true)
  format-arity         `"..%s..%s" % (a,)`-style formatting whose literal placeholder count cannot match the
                       operand (tuple of another length, or the lost-parentheses form `f(fmt % a, b)`): raises
                       TypeError on the path that executes it
  loop-closure         a function / lambda / coroutine defined in a loop that reads the loop variables as free
                       variables and only runs after the iteration (task, callback, stored): it sees the last iteration
  rebound-constant     a module-level name bound twice with an import-time use in between (a table built at import
                       captured the first object, functions that look the name up later get the second)
  hand-memo            a hand-written memo that keeps the (mutable) result of a call in a container outliving the call
                       and hands the remembered object, or a shallow copy of it, back to every caller with equal inputs
  table-concat         two adjacent string literals on one line inside a collection literal of strings (a lost
                       comma fuses two rows of a table)

All are decided from the AST of the modules in the property's scope; none executes code.
"""
from __future__ import annotations

import ast
import io
import re
import tokenize
from typing import Dict, Iterable, List, Optional, Set, Tuple

from .core import ClassInfo, FuncInfo, MUTATORS, Module, Repo, ap, stores, walk

MUTABLE_CTORS = {"list", "dict", "set", "deque", "defaultdict", "OrderedDict", "bytearray", "Counter",
                 "collections.deque", "collections.defaultdict", "collections.OrderedDict", "collections.Counter",
                 "MultiDict", "WeakValueDictionary", "weakref.WeakValueDictionary", "WeakSet", "weakref.WeakSet"}
BUILTIN_VALUE_TYPES = {"bytes", "str", "int", "float", "tuple", "frozenset", "bytearray", "list", "dict", "set",
                       "complex"}
# generic spellings of the builtins (`class MultiDict(Dict[_K, _T])`)
_TYPING_ALIASES = {"Dict": "dict", "List": "list", "Tuple": "tuple", "Set": "set", "FrozenSet": "frozenset"}
COPY_DUNDERS = ("__copy__", "__deepcopy__", "__getstate__", "__reduce__", "__reduce_ex__")
CACHE_NAMES = {"lru_cache", "cache", "functools.lru_cache", "functools.cache"}

Finding = Tuple[Module, ast.AST, str, str]   # module, node, instance key, message


def _is_mutable_value(v) -> bool:
    if isinstance(v, (ast.List, ast.Dict, ast.Set, ast.ListComp, ast.DictComp, ast.SetComp)):
        return True
    if isinstance(v, ast.Call):
        return (ap(v.func) or "") in MUTABLE_CTORS
    return False


def _classes_in(repo: Repo, rels: Iterable[str]) -> List[ClassInfo]:
    rels = set(rels)
    out = []
    for lst in repo.classes.values():
        for ci in lst:
            if ci.module.rel in rels:
                out.append(ci)
    return sorted(out, key=lambda c: (c.module.rel, c.node.lineno))


def _is_classvar(ann) -> bool:
    return ann is not None and "ClassVar" in ast.unparse(ann)


def _self_name(fn_node) -> Optional[str]:
    args = fn_node.args.posonlyargs + fn_node.args.args
    if not args:
        return None
    for d in fn_node.decorator_list:
        if (ap(d) or "") in ("staticmethod", "classmethod"):
            return None
    return args[0].arg


def _has_attr(ci: ClassInfo, name: str) -> bool:
    for st in ci.node.body:
        if isinstance(st, ast.Assign) and any(isinstance(t, ast.Name) and t.id == name for t in st.targets):
            return True
        if isinstance(st, ast.AnnAssign) and isinstance(st.target, ast.Name) and st.target.id == name:
            return True
    for f in ci.methods.values():
        sn = _self_name(f.node)
        if sn and any(s.path == f"{sn}.{name}" for s in stores(f.node, into_defs=False)):
            return True
    return False


# ---------------------------------------------------------------------------------------- shared-class-state
def shared_class_state(repo: Repo, rels: Iterable[str]) -> List[Finding]:
    out: List[Finding] = []
    for ci in _classes_in(repo, rels):
        cands: Dict[str, ast.AST] = {}
        for st in ci.node.body:
            if isinstance(st, ast.Assign) and len(st.targets) == 1 and isinstance(st.targets[0], ast.Name) \
                    and _is_mutable_value(st.value):
                cands[st.targets[0].id] = st
            elif isinstance(st, ast.AnnAssign) and isinstance(st.target, ast.Name) and st.value is not None \
                    and _is_mutable_value(st.value) and not _is_classvar(st.annotation):
                cands[st.target.id] = st
        if not cands:
            continue
        family = [ci] + repo.subclasses(ci, strict=True)
        # a constructor (of the class or, for a subclass's instances, of that subclass's chain) that rebinds it
        def rebinding_ctor(c: ClassInfo, name: str) -> bool:
            for k in repo.mro(c):
                for ctor in ("__init__", "__post_init__", "__new__", "__attrs_post_init__"):
                    f = k.methods.get(ctor)
                    if f is None:
                        continue
                    sn = _self_name(f.node)
                    if sn and any(s.kind == "assign" and s.path == f"{sn}.{name}" for s in stores(f.node, into_defs=False)):
                        return True
            return False
        for name, st in cands.items():
            if rebinding_ctor(ci, name):
                continue
            # is it a dataclass field?  a mutable default there is rejected by dataclasses itself for list/dict/set
            mutated_at = None
            for c in family:
                for f in c.methods.values():
                    sn = _self_name(f.node)
                    if not sn:
                        continue
                    for s in stores(f.node, into_defs=False):
                        if s.path == f"{sn}.{name}" and s.kind in ("mutcall", "setitem", "delitem", "augsetitem", "augassign"):
                            mutated_at = mutated_at or (f, s)
            if mutated_at is None:
                # mutation through another receiver (`ctx.<name>.append(..)`, `transfer.<name>[k] = v`) in the class's
                # own module, provided no other class of that module has an attribute of the same name
                others = [c for c in _classes_in(repo, [ci.module.rel]) if c not in family and c not in repo.mro(ci)
                          and _has_attr(c, name)]
                if not others:
                    for f in repo.all_funcs:
                        if f.module is not ci.module:
                            continue
                        for s in stores(f.node, into_defs=False):
                            if s.path.endswith("." + name) and s.path.split(".")[0] not in ("cls", ci.name) and \
                                    s.kind in ("mutcall", "setitem", "delitem", "augsetitem"):
                                mutated_at = mutated_at or (f, s)
            if mutated_at is None:
                continue
            f, s = mutated_at
            out.append((ci.module, st, f"{ci.name}.{name}",
                        f"class-level mutable `{name}` of {ci.name} is mutated in place through the instance "
                        f"({f.qual}, line {getattr(s.node, 'lineno', '?')}) and no constructor gives each instance its "
                        f"own object: every {ci.name} shares one container"))
    return out


# ---------------------------------------------------------------------------------------- stateful-cache
def _written_after_init(repo: Repo, ci: ClassInfo) -> Set[str]:
    """attributes of the class family that some method other than a constructor rebinds or mutates in place"""
    names: Set[str] = set()
    fam = {c for c in repo.mro(ci)} | set(repo.subclasses(ci, strict=True))
    for c in fam:
        for f in c.methods.values():
            if f.name in ("__init__", "__post_init__", "__new__"):
                continue
            sn = _self_name(f.node)
            if not sn:
                continue
            for s in stores(f.node, into_defs=False):
                if s.path.startswith(sn + "."):
                    names.add(s.path.split(".")[1])
    return names


def _self_reads(repo: Repo, ci: ClassInfo, f: FuncInfo, depth: int, seen: Set[str]) -> Set[str]:
    """instance attributes read by the method, following self.m(..) / super().m(..) calls (depth 3)"""
    sn = _self_name(f.node)
    if not sn or f.qual in seen:
        return set()
    seen.add(f.qual)
    out = {n.attr for n in walk(f.node) if isinstance(n, ast.Attribute) and isinstance(n.value, ast.Name)
           and n.value.id == sn and isinstance(n.ctx, ast.Load)}
    if depth >= 3:
        return out
    for c in walk(f.node):
        if not (isinstance(c, ast.Call) and isinstance(c.func, ast.Attribute)):
            continue
        recv = c.func.value
        tgt = None
        if isinstance(recv, ast.Name) and recv.id == sn:
            tgt = repo.lookup_method(ci, c.func.attr)
        elif isinstance(recv, ast.Call) and ap(recv.func) == "super":
            for b in repo.mro(f.cls or ci)[1:]:
                if c.func.attr in b.methods:
                    tgt = b.methods[c.func.attr]
                    break
        if tgt is not None:
            out.discard(c.func.attr)
            out |= _self_reads(repo, ci, tgt, depth + 1, seen)
    return out


def stateful_cache(repo: Repo, rels: Iterable[str]) -> List[Finding]:
    out: List[Finding] = []
    for ci in _classes_in(repo, rels):
        for f in ci.methods.values():
            decos = [d.func if isinstance(d, ast.Call) else d for d in f.node.decorator_list]
            if not any((ap(d) or "") in CACHE_NAMES for d in decos):
                continue
            sn = _self_name(f.node)
            if not sn:
                continue
            written = _written_after_init(repo, ci)
            reads = sorted(_self_reads(repo, ci, f, 0, set()) & written)
            if reads:
                out.append((ci.module, f.node, f.qual,
                            f"{f.qual} is cached per argument but reads instance state that is written after construction "
                            f"({', '.join('self.' + r for r in reads)}): the first answer is served after the state changed"))
    return out


# ---------------------------------------------------------------------------------------- override-signature
def _sig(fn_node):
    a = fn_node.args
    pos = a.posonlyargs + a.args
    n_def = len(a.defaults)
    required = [p.arg for p in pos[:len(pos) - n_def]] if n_def else [p.arg for p in pos]
    return {
        "pos": [p.arg for p in pos], "required": required, "vararg": a.vararg is not None,
        "kwarg": a.kwarg is not None, "kwonly": [k.arg for k in a.kwonlyargs],
        "kwonly_required": [k.arg for k, d in zip(a.kwonlyargs, a.kw_defaults) if d is None],
        "posonly": [p.arg for p in a.posonlyargs],
    }


def _kind(fn_node) -> str:
    for d in fn_node.decorator_list:
        n = ap(d) or ""
        if n in ("staticmethod", "classmethod", "property") or n.endswith(".setter") or n.endswith(".getter"):
            return n
    return "method"


def override_signature(repo: Repo, rels: Iterable[str]) -> List[Finding]:
    out: List[Finding] = []
    for ci in _classes_in(repo, rels):
        mro = repo.mro(ci)[1:]
        for name, f in ci.methods.items():
            if name in ("__init__", "__new__", "__init_subclass__", "__post_init__") or name.startswith("__") and name.endswith("__"):
                continue
            base_f = None
            for b in mro:
                if name in b.methods:
                    base_f = b.methods[name]
                    break
            if base_f is None or _kind(f.node) != _kind(base_f.node) or _kind(f.node) == "property":
                continue
            so, sb = _sig(f.node), _sig(base_f.node)
            skip = 0 if _kind(f.node) == "staticmethod" else 1
            ro, rb = so["required"][skip:], sb["required"][skip:]
            problems = []
            if len(ro) > len(rb) and not sb["vararg"]:
                problems.append(f"requires {len(ro)} positional argument(s) ({', '.join(ro)}), the overridden "
                                f"{base_f.qual} only {len(rb)}")
            # a parameter the base defaults must stay optional (by name, unless the override takes **kwargs/*args)
            base_optional = [p for p in sb["pos"][skip:] if p not in sb["required"]]
            for p in base_optional:
                if p in so["required"]:
                    problems.append(f"parameter `{p}` has a default in {base_f.qual} but is required here")
            for p in so["kwonly_required"]:
                if p not in sb["kwonly_required"] and p not in sb["required"]:
                    problems.append(f"keyword-only `{p}` is required here but not in {base_f.qual}")
            if problems:
                out.append((ci.module, f.node, f.qual, f"{f.qual} cannot be called the way its base method is: "
                            + "; ".join(sorted(set(problems)))))
    return out


# ---------------------------------------------------------------------------------------- copy-protocol
def copy_protocol(repo: Repo, rels: Iterable[str]) -> List[Finding]:
    out: List[Finding] = []
    for ci in _classes_in(repo, rels):
        init = ci.methods.get("__init__")
        if init is None:
            continue
        sn = _self_name(init.node)
        fields = sorted({s.path.split(".")[1] for s in stores(init.node, into_defs=False)
                         if sn and s.kind == "assign" and s.path.startswith(sn + ".") and s.path.count(".") == 1})
        if not fields:
            continue
        for d in COPY_DUNDERS:
            f = ci.methods.get(d)
            if f is None:
                continue
            if d in ("__getstate__", "__reduce__", "__reduce_ex__") and any("__setstate__" in c.methods for c in repo.mro(ci)):
                continue   # state is rebuilt by the class's own __setstate__ from whatever it chose to export
            text = ast.unparse(f.node)
            generic = any(t in text for t in ("__dict__", "vars(", "__slots__", "super().", "dataclasses.", "getattr(self")) \
                or re.search(r"copy\.(deep)?copy\(self\s*[,)]", text) is not None
            if generic:
                continue
            mentioned = {n.attr for n in ast.walk(f.node) if isinstance(n, ast.Attribute)} | \
                        {n.value for n in ast.walk(f.node) if isinstance(n, ast.Constant) and isinstance(n.value, str)} | \
                        {k.arg for n in ast.walk(f.node) if isinstance(n, ast.Call) for k in n.keywords if k.arg}
            missing = [x for x in fields if x not in mentioned and x.lstrip("_") not in mentioned
                       and not re.search(r"cache|memo|lock", x)]   # derived state may be dropped by a copy
            if missing:
                out.append((ci.module, f.node, f"{ci.name}.{d}",
                            f"{ci.name}.{d} never mentions {', '.join('self.' + m for m in missing)} which __init__ sets: "
                            f"the copy loses it"))
    return out


# ---------------------------------------------------------------------------------------- builtin-eq-ne
def builtin_eq_ne(repo: Repo, rels: Iterable[str]) -> List[Finding]:
    out: List[Finding] = []
    for ci in _classes_in(repo, rels):
        if "__eq__" not in ci.methods or "__ne__" in ci.methods:
            continue
        chain = repo.mro(ci)
        if any("__ne__" in c.methods for c in chain[1:]):
            continue
        builtin_bases = set()
        for c in chain:
            for b in c.base_names:
                name = _TYPING_ALIASES.get(b.split(".")[-1], b.split(".")[-1])
                if name in BUILTIN_VALUE_TYPES and repo.resolve_class(b, c.module) is None:
                    builtin_bases.add(name)
        if builtin_bases:
            out.append((ci.module, ci.methods["__eq__"].node, ci.name,
                        f"{ci.name} overrides __eq__ on top of builtin {'/'.join(sorted(builtin_bases))} without __ne__: "
                        f"the builtin's __ne__ does not consult __eq__, so `a == b` and `a != b` can both hold"))
    return out


# ---------------------------------------------------------------------------------------- format-arity
_PH = re.compile(r"%(?:\((?P<key>[^)]*)\))?[#0\- +]*(?:\*|\d+)?(?:\.(?:\*|\d+))?[hlL]?(?P<conv>[diouxXeEfFgGcrsa%])")


def _placeholders(fmt: str) -> Optional[int]:
    n = 0
    for m in _PH.finditer(fmt):
        if m.group("conv") == "%":
            continue
        if m.group("key") is not None:
            return None     # mapping style
        n += 1
        if "*" in m.group(0):
            return None
    return n


def format_arity(repo: Repo, rels: Iterable[str]) -> List[Finding]:
    out: List[Finding] = []
    for rel in rels:
        mod = repo.modules.get(rel)
        if mod is None:
            continue
        for n in ast.walk(mod.tree):
            if not (isinstance(n, ast.BinOp) and isinstance(n.op, ast.Mod) and isinstance(n.left, ast.Constant)
                    and isinstance(n.left.value, str)):
                continue
            k = _placeholders(n.left.value)
            if k is None:
                continue
            r = n.right
            if isinstance(r, ast.Tuple) and not any(isinstance(e, ast.Starred) for e in r.elts):
                if len(r.elts) != k:
                    out.append((mod, n, f"{n.left.value[:40]!r}", f"format string has {k} placeholder(s) but is applied "
                                f"to a tuple of {len(r.elts)}: TypeError when this line runs"))
                continue
            # lost parentheses: f("..%s..%s" % a, b)
            p = getattr(n, "_parent", None)
            if k >= 2 and isinstance(p, ast.Call) and p.args and p.args[0] is n and len(p.args) == k and \
                    isinstance(r, (ast.Attribute, ast.Constant, ast.Call, ast.Subscript, ast.Name)):
                out.append((mod, n, f"{n.left.value[:40]!r}", f"format string with {k} placeholders is applied to the single "
                            f"operand `{ast.unparse(r)}` while the remaining {k - 1} value(s) are passed to "
                            f"`{ast.unparse(p.func)}` as separate arguments (lost tuple parentheses): TypeError when this line runs"))
    return out


# ---------------------------------------------------------------------------------------- table-concat
def table_concat(repo: Repo, rels: Iterable[str]) -> List[Finding]:
    out: List[Finding] = []
    for rel in rels:
        mod = repo.modules.get(rel)
        if mod is None:
            continue
        for n in ast.walk(mod.tree):
            if not isinstance(n, (ast.Tuple, ast.List, ast.Set)) or len(n.elts) < 2:
                continue
            if not all(isinstance(e, ast.Constant) and isinstance(e.value, str) for e in n.elts):
                continue
            for e in n.elts:
                seg = ast.get_source_segment(mod.src, e)
                if not seg:
                    continue
                try:
                    toks = [t for t in tokenize.generate_tokens(io.StringIO("(" + seg + ")").readline)
                            if t.type == tokenize.STRING]
                except (tokenize.TokenError, IndentationError, SyntaxError):
                    continue
                if len(toks) < 2:
                    continue
                # one line: always a fused pair; several lines: only when every piece looks like a table key
                # (a wrapped long text has blanks / punctuation at the seam)
                def keylike(tok):
                    try:
                        v = ast.literal_eval(tok.string)
                    except Exception:
                        return False
                    return isinstance(v, str) and re.fullmatch(r"[A-Za-z0-9_.\-]+", v) is not None
                if e.lineno == e.end_lineno or all(keylike(t) for t in toks):
                    out.append((mod, e, f"{e.value[:40]!r}", f"two string literals are fused on one line inside a table of "
                                f"strings ({seg}): a lost comma merges two rows"))
    return out


# ---------------------------------------------------------------------------------------- rebound-constant
def rebound_constant(repo: Repo, rels: Iterable[str]) -> List[Finding]:
    """A module-level name bound twice at top level with an import-time use (module statement, class body, default
    argument, decorator) in between: that user captured the first object, every function body sees the second."""
    out: List[Finding] = []
    for rel in rels:
        mod = repo.modules.get(rel)
        if mod is None:
            continue
        binds: Dict[str, List[ast.stmt]] = {}
        for st in mod.tree.body:
            tgts = []
            if isinstance(st, ast.Assign):
                tgts = [t for t in st.targets if isinstance(t, ast.Name)]
            elif isinstance(st, ast.AnnAssign) and st.value is not None and isinstance(st.target, ast.Name):
                tgts = [st.target]
            for t in tgts:
                binds.setdefault(t.id, []).append(st)
        for name, sts in binds.items():
            if len(sts) < 2:
                continue
            first, last = sts[0], sts[-1]
            # the rebinding may itself be built from the old value (X = wrap(X)): still two objects
            captured = None
            for st in mod.tree.body:
                if st.lineno <= first.lineno or st.lineno >= last.lineno:
                    continue
                for n in _import_time_nodes(st):
                    if isinstance(n, ast.Name) and n.id == name and isinstance(n.ctx, ast.Load):
                        captured = captured or n
            if captured is not None:
                out.append((mod, last, name,
                            f"module-level `{name}` is bound at line {first.lineno} and bound again at line {last.lineno}, and "
                            f"line {captured.lineno} uses it at import time in between: that user keeps the first object "
                            f"while code that looks the name up when it runs gets the second"))
    return out


def _import_time_nodes(st):
    """nodes of a module-level statement that are evaluated when the module is imported (function bodies excluded,
    their decorators / defaults / annotations included)"""
    stack = [st]
    while stack:
        n = stack.pop()
        yield n
        if isinstance(n, (ast.FunctionDef, ast.AsyncFunctionDef)):
            stack.extend(n.decorator_list)
            stack.extend(n.args.defaults)
            stack.extend(d for d in n.args.kw_defaults if d is not None)
            continue
        if isinstance(n, ast.Lambda):
            stack.extend(n.args.defaults)
            continue
        stack.extend(ast.iter_child_nodes(n))


# ---------------------------------------------------------------------------------------- loop-closure
DEFERRING = {"create_task", "create_logged_task", "ensure_future", "call_soon", "call_later", "call_at", "call_soon_threadsafe",
             "add_done_callback", "run_in_executor", "submit", "subscribe", "subscribe_async", "append", "appendleft", "add",
             "setdefault", "partial", "Thread", "Timer", "start_soon", "schedule_task", "gather", "wait", "as_completed"}


def _bound_in(node) -> Set[str]:
    out = set()
    for n in ast.walk(node):
        if isinstance(n, ast.Name) and isinstance(n.ctx, ast.Store):
            out.add(n.id)
    return out


def _free_loads(fn) -> Set[str]:
    params = {a.arg for a in fn.args.posonlyargs + fn.args.args + fn.args.kwonlyargs}
    if fn.args.vararg:
        params.add(fn.args.vararg.arg)
    if fn.args.kwarg:
        params.add(fn.args.kwarg.arg)
    body = fn.body if isinstance(fn.body, list) else [fn.body]
    local = set()
    for b in body:
        local |= _bound_in(b)
    loads = set()
    for b in body:
        for n in ast.walk(b):
            if isinstance(n, ast.Name) and isinstance(n.ctx, ast.Load):
                loads.add(n.id)
    return loads - params - local


def loop_closure(repo: Repo, rels: Iterable[str]) -> List[Finding]:
    """A function / lambda / coroutine function defined inside a loop that reads the loop's variables as free variables
    and runs only after the iteration (scheduled as a task, registered as a callback, stored): it sees the values of the
    LAST iteration, not of the one that created it."""
    out: List[Finding] = []
    for rel in rels:
        mod = repo.modules.get(rel)
        if mod is None:
            continue
        for loop in [n for n in ast.walk(mod.tree) if isinstance(n, (ast.For, ast.AsyncFor, ast.While))]:
            loop_vars = (_bound_in(loop.target) if hasattr(loop, "target") else set())
            for st in loop.body:
                loop_vars |= {n.id for n in ast.walk(st) if isinstance(n, ast.Name) and isinstance(n.ctx, ast.Store)
                              and not any(isinstance(a, (ast.FunctionDef, ast.AsyncFunctionDef, ast.Lambda))
                                          and a is not st for a in _enclosing_defs(st, n))}
            if not loop_vars:
                continue
            # closures defined directly in this loop's body (not inside a nested def, not in a nested loop's own scope)
            for fn in _defs_in_loop(loop):
                free = _free_loads(fn) & loop_vars
                if not free:
                    continue
                name = getattr(fn, "name", None)
                deferred = None
                if isinstance(fn, ast.AsyncFunctionDef):
                    for c in _calls_in_loop(loop, fn):
                        if isinstance(c.func, ast.Name) and c.func.id == name and not isinstance(getattr(c, "_parent", None), ast.Await):
                            deferred = c
                elif name is not None or isinstance(fn, ast.Lambda):
                    for c in _calls_in_loop(loop, fn):
                        cal = (ap(c.func) or "").split(".")[-1]
                        args = list(c.args) + [k.value for k in c.keywords]
                        hit = any((isinstance(a, ast.Name) and a.id == name) or a is fn for a in args)
                        if hit and cal in DEFERRING:
                            deferred = c
                if deferred is not None:
                    out.append((mod, fn, f"{name or '<lambda>'} in loop at line {loop.lineno}" if False else
                                f"{_owner_name(fn)}: closure over {'/'.join(sorted(free))}",
                                f"`{name or 'lambda'}` is defined inside a loop, reads the loop variable(s) "
                                f"{', '.join(sorted(free))} as free variables and is only run later "
                                f"(`{ast.unparse(deferred)[:70]}`): when it runs it sees the values of the last iteration - "
                                f"bind them as default arguments or pass them in"))
    return out


def _enclosing_defs(top, node):
    p = getattr(node, "_parent", None)
    while p is not None and p is not top:
        yield p
        p = getattr(p, "_parent", None)


def _defs_in_loop(loop):
    stack = list(loop.body)
    while stack:
        n = stack.pop()
        if isinstance(n, (ast.FunctionDef, ast.AsyncFunctionDef, ast.Lambda)):
            yield n
            continue
        stack.extend(ast.iter_child_nodes(n))


def _calls_in_loop(loop, skip):
    stack = list(loop.body)
    while stack:
        n = stack.pop()
        if n is skip and not isinstance(n, ast.Lambda):
            continue
        if isinstance(n, ast.Call):
            yield n
        stack.extend(ast.iter_child_nodes(n))


def _owner_name(node) -> str:
    p = getattr(node, "_parent", None)
    names = []
    while p is not None:
        if isinstance(p, (ast.FunctionDef, ast.AsyncFunctionDef, ast.ClassDef)):
            names.append(p.name)
        p = getattr(p, "_parent", None)
    return ".".join(reversed(names)) or "<module>"


# ---------------------------------------------------------------------------------------- hand-memo
SHALLOW_COPIERS = {"copy.copy", "dict", "list", "set", "tuple"}


def _persistent_containers(fn_node, mod: Module) -> Set[str]:
    """names / paths inside the function that denote a container outliving the call: self./cls. attributes, module-level
    mutables, and locals bound to one of those (directly, through cls.__dict__.get / getattr / setdefault, or through a
    same-module helper whose returns are such objects)"""
    mod_mut = {st.targets[0].id for st in mod.tree.body if isinstance(st, ast.Assign) and len(st.targets) == 1 and
               isinstance(st.targets[0], ast.Name) and _is_mutable_value(st.value)}
    helpers = {}
    for n in ast.walk(mod.tree):
        if isinstance(n, (ast.FunctionDef, ast.AsyncFunctionDef)):
            helpers.setdefault(n.name, n)

    def persistent_expr(e, local, depth=0) -> bool:
        path = ap(e)
        if path:
            head = path.split(".")[0]
            if "." in path and head in ("self", "cls"):
                return True
            if path in mod_mut or path in local:
                return True
        if isinstance(e, ast.Call):
            fn = ap(e.func) or ""
            if fn.endswith("__dict__.get") or fn.endswith("__dict__.setdefault") or fn in ("getattr", "vars"):
                return True
            if isinstance(e.func, ast.Attribute) and e.func.attr in ("setdefault", "get") and persistent_expr(e.func.value, local):
                return False       # an element of a persistent container, not the container
            name = e.func.attr if isinstance(e.func, ast.Attribute) else (e.func.id if isinstance(e.func, ast.Name) else None)
            h = helpers.get(name)
            if h is not None and depth < 2 and h is not fn_node:
                hl: Set[str] = set()
                _collect(h, hl, depth + 1)
                rets = [r.value for r in walk(h) if isinstance(r, ast.Return) and r.value is not None]
                return bool(rets) and all(persistent_expr(r, hl, depth + 1) for r in rets)
        return False

    def _collect(f, local: Set[str], depth=0):
        for _ in range(2):
            for st in stores(f, into_defs=False):
                if st.kind == "assign" and st.value is not None and "." not in st.path and persistent_expr(st.value, local, depth):
                    local.add(st.path)
    out: Set[str] = set()
    _collect(fn_node, out)
    return out


def hand_memo(repo: Repo, rels: Iterable[str]) -> List[Finding]:
    """A hand-written memo: the function stores the result of a call into a container that outlives the call, keyed by
    its inputs, and hands the stored object (or a shallow copy of it) back.  Every caller that asks with equal inputs
    then shares the nested mutable values of one result - an in-place edit by one of them changes what the others (and
    every later decode) see.  Returning `copy.deepcopy(..)` of the entry, or caching only on a path the caller selects
    through a parameter, is not reported."""
    out: List[Finding] = []
    for rel in rels:
        mod = repo.modules.get(rel)
        if mod is None:
            continue
        for fn in ast.walk(mod.tree):
            if not isinstance(fn, (ast.FunctionDef, ast.AsyncFunctionDef)):
                continue
            params = {a.arg for a in fn.args.posonlyargs + fn.args.args + fn.args.kwonlyargs}
            local = _persistent_containers(fn, mod)
            entries = []
            for st in stores(fn, into_defs=False):
                if st.kind != "setitem" or st.value is None:
                    continue
                cont = st.path
                if not (cont in local or (cont.split(".")[0] in ("self", "cls") and "." in cont)):
                    continue
                v = st.value
                src_call = v if isinstance(v, ast.Call) else None
                if isinstance(v, ast.Name):
                    for s2 in stores(fn, into_defs=False):
                        if s2.kind == "assign" and s2.path == v.id and isinstance(s2.value, ast.Call):
                            src_call = s2.value
                if src_call is None:
                    continue
                callee = (ap(src_call.func) or "").split(".")[-1]
                if callee in ("deepcopy", "bytes", "str", "int", "float", "bool", "tuple", "frozenset", "len", "hash", "id"):
                    continue
                key_names = {n.id for n in ast.walk(st.target.slice) if isinstance(n, ast.Name)} if isinstance(st.target, ast.Subscript) else set()
                # keyed by the function's inputs (directly or through a local computed from them)
                derived = set(params)
                for _ in range(3):
                    for s2 in stores(fn, into_defs=False):
                        if s2.kind == "assign" and s2.value is not None and "." not in s2.path and \
                                {n.id for n in ast.walk(s2.value) if isinstance(n, ast.Name)} & derived:
                            derived.add(s2.path)
                if not (key_names & derived):
                    continue
                entries.append((cont, st, v))
            for cont, st, v in entries:
                for r in walk(fn):
                    if not isinstance(r, ast.Return) or r.value is None:
                        continue
                    e = r.value
                    shallow = False
                    if isinstance(e, ast.Call) and ((ap(e.func) or "") in SHALLOW_COPIERS or
                                                    (isinstance(e.func, ast.Attribute) and e.func.attr == "copy" and not e.args)):
                        shallow = True
                        e = e.args[0] if e.args else e.func.value
                    hands = False
                    if isinstance(e, ast.Subscript) and ap(e.value) == cont:
                        hands = True
                    elif isinstance(e, ast.Call) and isinstance(e.func, ast.Attribute) and e.func.attr == "get" and ap(e.func.value) == cont:
                        hands = True
                    elif isinstance(v, ast.Name) and isinstance(e, ast.Name) and e.id == v.id and r.lineno > st.node.lineno:
                        hands = True
                    if not hands:
                        continue
                    inst_alias = any(s2.kind == "assign" and s2.path == cont and (ap(s2.value) or "").split(".")[0] == "self"
                                     for s2 in stores(fn, into_defs=False))
                    if (cont.split(".")[0] == "self" or inst_alias) and not shallow:
                        # per-instance stores that hand their entries out are registries of shared entities (name cache,
                        # parcels, certificates): sharing is their purpose.  Only process-wide containers, or an entry that is
                        # copied (so the author meant callers to own the result) but only one level deep, are memos.
                        continue
                    # a return the caller selects through a parameter (make_copy=False and the like) is the caller's choice
                    from .core import conditions as _conds
                    if any({n.id for n in ast.walk(c.test) if isinstance(n, ast.Name)} & params and
                           not ({n.id for n in ast.walk(c.test) if isinstance(n, ast.Name)} & (key_names | {cont}))
                           and any(isinstance(n, ast.Name) and n.id in params and n.id.startswith(("make_", "copy", "deep", "share"))
                                   for n in ast.walk(c.test))
                           for c in _conds(r, fn)):
                        continue
                    out.append((mod, r, f"{_owner_name(fn)}: entry of {cont}",
                                f"{_owner_name(fn)} remembers the result of `{ast.unparse(v)[:60]}` in {cont} and returns "
                                f"{'a shallow copy of ' if shallow else ''}the remembered object: callers with equal inputs share its "
                                f"nested mutable values"))
                    break
    return out


LINTS = (("loop-closure", loop_closure), ("rebound-constant", rebound_constant), ("shared-class-state", shared_class_state), ("stateful-cache", stateful_cache),
         ("override-signature", override_signature), ("copy-protocol", copy_protocol),
         ("builtin-eq-ne", builtin_eq_ne), ("format-arity", format_arity), ("table-concat", table_concat), ("hand-memo", hand_memo))


def struct_obligations(ctx, rule_id: str, rels: Iterable[str]):
    repo = ctx.repo
    rels = [r for r in rels if r.endswith(".py") and r in repo.modules]
    ctx.rule(rule_id, "declarative integrity of the modules implementing the property: no class-level mutable state "
                      "shared between instances, no cache over instance state, overrides keep their base's call "
                      "shape, hand-written copy protocols cover every constructor field, builtin subclasses keep "
                      "== and != consistent, %-formatting arity, no fused table rows")
    n = 0
    for lint, fn in LINTS:
        for mod, node, key, msg in fn(repo, rels):
            ctx.ob(rule_id, f"{lint}: {key}", False, f"{mod.rel}:{getattr(node, 'lineno', 0)}", msg)
            n += 1
    ctx.ob(rule_id, f"declarative lints ran over {len(rels)} module(s)", bool(rels), rels[0] if rels else "",
           "no analysed module present")
    return n
