"""hipposa.tmplmodel - independent parser for message_template.msg (brace/token grammar)."""
from __future__ import annotations

import os
import re
from dataclasses import dataclass, field
from typing import Dict, List, Optional

from .core import AnalysisError

TEMPLATE_REL = "hippolyzer/lib/base/message/data/message_template.msg"
MESSAGE_XML_REL = "hippolyzer/lib/base/message/data/message.xml"

INT_TYPES = {"U8", "U16", "U32", "U64", "S8", "S16", "S32", "S64", "IPPORT", "BOOL"}
SIGNED_TYPES = {"S8", "S16", "S32", "S64"}
BYTES_TYPES = {"Fixed", "Variable"}


@dataclass
class TVar:
    name: str
    type: str
    size: Optional[int]


@dataclass
class TBlock:
    name: str
    kind: str              # Single | Multiple | Variable
    count: Optional[int]
    vars: List[TVar] = field(default_factory=list)

    def var(self, name) -> Optional[TVar]:
        for v in self.vars:
            if v.name == name:
                return v
        return None


@dataclass
class TMessage:
    name: str
    freq: str
    num: str
    trust: str
    encoding: str
    deprecation: Optional[str]
    blocks: List[TBlock] = field(default_factory=list)

    def block(self, name) -> Optional[TBlock]:
        for b in self.blocks:
            if b.name == name:
                return b
        return None


def _tokens(text: str):
    text = re.sub(r"//[^\n]*", "", text)
    return re.findall(r"[{}]|[^\s{}]+", text)


def parse_template(root: str, overlay=None) -> Dict[str, TMessage]:
    path = os.path.join(root, TEMPLATE_REL)
    if overlay and TEMPLATE_REL in overlay:
        text = overlay[TEMPLATE_REL]
    else:
        if not os.path.exists(path):
            raise AnalysisError(f"message template missing: {path}")
        with open(path, encoding="utf8", errors="replace") as f:
            text = f.read()
    toks = _tokens(text)
    i = 0
    msgs: Dict[str, TMessage] = {}
    # header: 'version' X
    while i < len(toks) and toks[i] != "{":
        i += 1

    def expect(t):
        nonlocal i
        if i >= len(toks) or toks[i] != t:
            raise AnalysisError(f"template parse error at token {i}: expected {t!r} got {toks[i] if i < len(toks) else 'EOF'!r}")
        i += 1

    while i < len(toks):
        expect("{")
        head = []
        while toks[i] not in "{}":
            head.append(toks[i])
            i += 1
        if len(head) < 5:
            raise AnalysisError(f"template message header too short: {head}")
        msg = TMessage(head[0], head[1], head[2], head[3], head[4], head[5] if len(head) > 5 else None)
        while toks[i] == "{":
            i += 1
            bh = []
            while toks[i] not in "{}":
                bh.append(toks[i])
                i += 1
            blk = TBlock(bh[0], bh[1], int(bh[2]) if len(bh) > 2 else None)
            while toks[i] == "{":
                i += 1
                vh = []
                while toks[i] not in "{}":
                    vh.append(toks[i])
                    i += 1
                expect("}")
                blk.vars.append(TVar(vh[0], vh[1], int(vh[2]) if len(vh) > 2 else None))
            expect("}")
            msg.blocks.append(blk)
        expect("}")
        msgs[msg.name] = msg
    return msgs
