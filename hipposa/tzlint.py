"""hipposa.tzlint - time-zone lint for date codecs (shared by C09.R3, C12, C20).

A date codec is time-zone independent only if it never consults the process' local zone.  Python
consults it in exactly these places (semantics of the stdlib, part of the trusted base):

  naive-fromtimestamp   datetime/date `.fromtimestamp(x)` without a tz argument (local wall clock)
  naive-timestamp       `X.timestamp()` where X may be naive (naive values are read as local time)
  naive-astimezone      `X.astimezone(...)` where X may be naive (same implicit local reading)
  local-time-api        `time.mktime(...)`, `time.localtime(...)`, and any read of the process zone constants
                        `time.timezone`, `time.altzone`, `time.daylight`, `time.tzname`

Accepted idioms (never flagged): `utcfromtimestamp(x)`, `fromtimestamp(x, tz=...)`,
`calendar.timegm(x.utctimetuple())` / `calendar.timegm(x.timetuple())`, and `.timestamp()` /
`.astimezone()` on a value that is *provably aware* at that point:

  * built aware: `fromtimestamp(x, tz)`, `now(tz)`, `datetime(..., tzinfo=tz)`,
    `Y.replace(tzinfo=<not None>)`, `Y.astimezone(...)`;
  * a name all of whose assignments in the function are aware expressions;
  * control dependent on a tzinfo test of the same value (`X.tzinfo is not None`, `X.tzinfo`,
    `X.utcoffset() is not None` on every path reaching the use);
  * normalised by an earlier `if X.tzinfo is None: X = X.replace(tzinfo=...)` (no else) in an
    enclosing block.

Everything is decided on resolved access paths and syntax-directed dominance (core.facts), never on
text or positions.

    tz_sites(repo, rels)    -> every examined site: (funcinfo|None, node, kind, ok, message)
    tz_findings(repo, rels) -> the failing ones:    (funcinfo|None, node, kind, message)
"""
from __future__ import annotations

import ast
from typing import List, Optional, Tuple

from .core import (AnalysisError, FUNC_TYPES, FuncInfo, Module, Repo, ap, atoms, enclosing_stmt, facts, kw,
                   norm, parent, stores, walk, _block_of)

KINDS = ("naive-fromtimestamp", "naive-timestamp", "naive-astimezone", "local-time-api")


def _is_none(n) -> bool:
    return isinstance(n, ast.Constant) and n.value is None


def _tz_arg(c: ast.Call, pos: int) -> Optional[ast.AST]:
    """The tz/tzinfo argument of a constructor-like call (positional index `pos`, or keyword)."""
    for name in ("tz", "tzinfo"):
        v = kw(c, name)
        if v is not None:
            return v
    if len(c.args) > pos and not any(isinstance(a, ast.Starred) for a in c.args[:pos + 1]):
        return c.args[pos]
    return None


def _attr(c: ast.Call) -> Optional[str]:
    return c.func.attr if isinstance(c.func, ast.Attribute) else (c.func.id if isinstance(c.func, ast.Name) else None)


def _fn_node(node) -> Optional[ast.AST]:
    cur = parent(node)
    while cur is not None and not isinstance(cur, FUNC_TYPES + (ast.Lambda,)):
        cur = parent(cur)
    return cur


def _aware_expr(e: ast.AST, at: ast.AST, depth=0) -> bool:
    """Expression `e` (evaluated at node `at`) certainly yields a tz-aware datetime."""
    if depth > 8:
        return False
    if isinstance(e, ast.IfExp):
        return _aware_expr(e.body, at, depth + 1) and _aware_expr(e.orelse, at, depth + 1)
    if isinstance(e, ast.Call):
        a = _attr(e)
        if a == "replace":
            v = kw(e, "tzinfo")
            return v is not None and not _is_none(v)
        if a == "astimezone":
            return True
        if a == "fromtimestamp":
            v = _tz_arg(e, 1)
            return v is not None and not _is_none(v)
        if a == "now":
            v = _tz_arg(e, 0)
            return v is not None and not _is_none(v)
        if a == "datetime":
            v = _tz_arg(e, 7)
            return v is not None and not _is_none(v)
        return False
    p = ap(e)
    if p is None:
        return False
    return _aware_path(p, e, at, depth)


def _tz_test(e: ast.AST, pol: bool, path: str) -> Optional[bool]:
    """If (e, pol) is a tzinfo test of `path`: True = proves aware, False = proves naive."""
    # X.tzinfo / X.utcoffset() truthiness
    if ap(e) in (f"{path}.tzinfo", f"{path}.utcoffset()"):
        return pol
    if isinstance(e, ast.Compare) and len(e.ops) == 1 and _is_none(e.comparators[0]) \
            and ap(e.left) in (f"{path}.tzinfo", f"{path}.utcoffset()"):
        if isinstance(e.ops[0], (ast.Is, ast.Eq)):
            return not pol
        if isinstance(e.ops[0], (ast.IsNot, ast.NotEq)):
            return pol
    return None


def _aware_path(path: str, use: ast.AST, at: ast.AST, depth: int) -> bool:
    fn = _fn_node(use)
    # (1) dominating tzinfo test
    for e, pol in facts(use, fn):
        if _tz_test(e, pol, path) is True:
            return True
    # (2) normalising `if X.tzinfo is None: X = <aware>` earlier in an enclosing block
    cur = enclosing_stmt(use)
    while cur is not None and cur is not fn:
        block, _ = _block_of(cur)
        if block is not None:
            for s in block:
                if s is cur:
                    break
                if isinstance(s, ast.If) and not s.orelse:
                    proves_naive = any(_tz_test(e, pol, path) is False for e, pol in atoms(s.test, True))
                    # the else path must prove aware: the test is a single tz atom
                    single = len(atoms(s.test, True)) == 1 and len(atoms(s.test, False)) == 1
                    if proves_naive and single:
                        assigns = [st for st in stores(ast.Module(body=s.body, type_ignores=[]), into_defs=False)
                                   if st.path == path and st.kind == "assign"]
                        if assigns and assigns[-1].value is not None and \
                                _aware_expr(assigns[-1].value, assigns[-1].node, depth + 1):
                            # no later naive re-assignment between the If and the use in this block
                            later = False
                            seen = False
                            for t in block:
                                if t is s:
                                    seen = True
                                    continue
                                if t is cur:
                                    break
                                if seen and any(st.path == path for st in stores(t, into_defs=False)):
                                    later = True
                            if not later:
                                return True
        cur = parent(cur)
        while cur is not None and not isinstance(cur, ast.stmt) and cur is not fn:
            cur = parent(cur)
    # (3) a local name all of whose assignments are aware expressions
    if fn is not None and "." not in path and "[" not in path and "(" not in path and not isinstance(fn, ast.Lambda):
        params = {a.arg for a in fn.args.args + fn.args.kwonlyargs + fn.args.posonlyargs}
        if fn.args.vararg:
            params.add(fn.args.vararg.arg)
        if fn.args.kwarg:
            params.add(fn.args.kwarg.arg)
        if path not in params:
            assigns = [st for st in stores(fn, into_defs=False) if st.path == path]
            if assigns and all(st.kind == "assign" and st.value is not None and
                               not any(n is use for n in ast.walk(st.value)) and
                               _aware_expr(st.value, st.node, depth + 1) for st in assigns):
                return True
    return False


def _resolves_to_time_module(mod: Module, c: ast.Call) -> Optional[str]:
    """'mktime'/'localtime' when the call is time.mktime / time.localtime (through imports)."""
    f = c.func
    if isinstance(f, ast.Attribute) and f.attr in ("mktime", "localtime") and isinstance(f.value, ast.Name):
        if mod.imports.get(f.value.id) == "time":
            return f.attr
    if isinstance(f, ast.Name) and mod.imports.get(f.id) in ("time.mktime", "time.localtime"):
        return mod.imports[f.id].split(".")[-1]
    return None


def _owner(repo: Repo, mod: Module, node) -> Optional[FuncInfo]:
    cur = parent(node)
    while cur is not None:
        if isinstance(cur, FUNC_TYPES):
            for f in repo.funcs.get(cur.name, []):
                if f.node is cur:
                    return f
        cur = parent(cur)
    return None


ZONE_CONSTANTS = ("timezone", "altzone", "daylight", "tzname")


def _zone_constant(mod: Module, n: ast.AST) -> Optional[str]:
    """'timezone' etc. when the expression reads time.<zone constant> (through imports)."""
    if isinstance(n, ast.Attribute) and n.attr in ZONE_CONSTANTS and isinstance(n.value, ast.Name) \
            and isinstance(n.ctx, ast.Load) and mod.imports.get(n.value.id) == "time":
        return n.attr
    if isinstance(n, ast.Name) and isinstance(n.ctx, ast.Load) and \
            mod.imports.get(n.id) in tuple(f"time.{c}" for c in ZONE_CONSTANTS):
        return mod.imports[n.id].split(".")[-1]
    return None


def tz_sites(repo: Repo, module_rel_paths) -> List[Tuple[Optional[FuncInfo], ast.AST, str, bool, str]]:
    out = []
    for rel in module_rel_paths:
        mod = repo.module(rel)
        for c in walk(mod.tree, into_defs=True):
            zc = _zone_constant(mod, c)
            if zc is not None:
                out.append((_owner(repo, mod, c), c, "local-time-api", False,
                            f"time.{zc} is the process' own UTC offset / zone name: a codec computing with it "
                            f"depends on the process time zone (and ignores DST of the instant at hand)"))
                continue
            if not isinstance(c, ast.Call):
                continue
            a = _attr(c)
            fi = _owner(repo, mod, c)
            tm = _resolves_to_time_module(mod, c)
            if tm is not None:
                out.append((fi, c, "local-time-api", False,
                            f"time.{tm}() converts through the process' local time zone"))
                continue
            if not isinstance(c.func, ast.Attribute):
                continue
            if a == "utcfromtimestamp":
                out.append((fi, c, "utc-idiom", True, "utcfromtimestamp: zone independent"))
            elif a == "timegm":
                out.append((fi, c, "utc-idiom", True, "calendar.timegm: zone independent"))
            elif a == "fromtimestamp":
                v = _tz_arg(c, 1)
                ok = v is not None and not _is_none(v)
                out.append((fi, c, "naive-fromtimestamp", ok,
                            "fromtimestamp(x, tz=...)" if ok else
                            "fromtimestamp(x) without tz yields local wall-clock time: the decoded value depends on "
                            "the process time zone (and raises outside the platform time_t range)"))
            elif a == "timestamp" and not c.args and not c.keywords:
                ok = _aware_expr(c.func.value, c)
                out.append((fi, c, "naive-timestamp", ok,
                            "receiver provably tz-aware" if ok else
                            ".timestamp() on a value not provably tz-aware: a naive datetime is read as local time, "
                            "the encoded instant depends on the process time zone"))
            elif a == "astimezone":
                ok = _aware_expr(c.func.value, c)
                out.append((fi, c, "naive-astimezone", ok,
                            "receiver provably tz-aware" if ok else
                            ".astimezone() on a possibly naive value assumes local time"))
    return out


def tz_findings(repo: Repo, module_rel_paths) -> List[Tuple[Optional[FuncInfo], ast.AST, str, str]]:
    return [(fi, node, kind, msg) for fi, node, kind, ok, msg in tz_sites(repo, module_rel_paths) if not ok]


def site_key(fi: Optional[FuncInfo], node: ast.AST, kind: str) -> str:
    """Stable construct key for a lint site: qualified function + kind + access path of the callee
    (arguments and local names are not part of the key)."""
    callee = ap(node.func) if isinstance(node, ast.Call) else None
    return f"{fi.qual if fi is not None else '<module>'}: {kind} {callee or norm(node)}"
