"""hipposa.wiretrace - wire-trace abstraction of serialize / deserialize bodies (DESIGN.md 2.7).

A method body is executed *symbolically over its syntax tree* (nothing from the repository is
imported or run): every syntactic path is enumerated, loops are summarised as Kleene stars, calls to
methods of the same class hierarchy (self./cls./super().), to same-module functions and to local
closures are inlined.  The result is a set of abstract path words over wire events:

  ('E', sym)               a spec hits the wire: S.write(spec, ..) / spec.serialize(.., S, ..)
                                                  S.read(spec)     / spec.deserialize(S, ..)
  ('B', lensym)            raw bytes: S.write_bytes(x) / S.read_bytes(n)   (peeking reads: no event)
  ('X', what)              anything else done to a stream (seek, hand-off to foreign code)
  ('O',)                   a local window (BufferWriter/BufferReader) is constructed on this path
  ('*', kind, count, alts) a loop / comprehension; kind 'spec:<paths>' when the iteration source is
                           an attribute path of the spec object itself, else 'rep' (driven by the
                           value, a count or end-of-stream); alts = the distinct body words

Spec expressions are normalised to access paths: self/cls/type(self) -> '@', the serialization
module alias is dropped (se.U8 -> U8), subscripts lose their index (X[k] -> X[]), a loop variable is
the element of what it iterates (for p in self._prim_seq -> @._prim_seq[]), locals are resolved
through their (path-sensitive) assignments, non-stream parameters are '<param>'.

Along each path the tracer also keeps
  * path conditions (facts about tests already decided, used to prune correlated branches), and
  * guards: tests the path survived whose other branch always raises (rejection checks, asserts).
"""
from __future__ import annotations

import ast
import re
from dataclasses import dataclass, field
from typing import Any, Callable, Dict, List, Optional, Sequence, Set, Tuple

from .core import AnalysisError, ClassInfo, FuncInfo, Module, Repo, FUNC_TYPES, atoms

STREAM_CTORS = {"BufferWriter", "BufferReader", "MemberTrackingBufferWriter", "FHReader"}
NEUTRAL_STREAM_METHODS = {"tell", "scoped_seek", "scoped_pod", "enter_member", "copy_buffer"}
PURE_BUILTINS = {"len", "bool", "repr", "str", "id", "type", "isinstance", "int", "print"}
SPEC_PATH = re.compile(r"@(\.\w+|\[\]|\[key\])*")
SER_MODULE_SUFFIX = "serialization"
REP_SEP = "\x1f"


@dataclass
class Frame:
    fid: int
    fn: Optional[FuncInfo]
    dcls: Optional[ClassInfo]      # class defining the function being executed (for super())
    mod: Module
    depth: int
    stack: Tuple[str, ...]


@dataclass(frozen=True)
class Guard:
    tid: int
    pol: bool
    pos: int                        # len(tok) when acquired
    inloop: bool
    test: ast.AST = field(compare=False, hash=False, default=None)
    env: Any = field(compare=False, hash=False, default=None)
    fr: Any = field(compare=False, hash=False, default=None)


class St:
    __slots__ = ("tok", "env", "pc", "guards", "gbase", "status", "loopdepth", "rewound")

    def __init__(self):
        self.tok: Tuple = ()
        self.env: Dict[str, Any] = {}
        self.pc: Dict[Any, Tuple[bool, frozenset, str]] = {}
        self.guards: Tuple[Guard, ...] = ()
        self.gbase = 0
        self.status = "n"           # n | ret | raise | brk | cont
        self.loopdepth = 0
        self.rewound = False        # the path put the stream position back (a peek): nothing consumed

    def copy(self) -> "St":
        s = St()
        s.tok = self.tok
        s.env = dict(self.env)
        s.pc = dict(self.pc)
        s.guards = self.guards
        s.gbase = self.gbase
        s.status = self.status
        s.loopdepth = self.loopdepth
        s.rewound = self.rewound
        return s

    def key(self):
        return (self.tok, self.status, frozenset(self.env.items()),
                frozenset((k, v[0]) for k, v in self.pc.items()), self.guards, self.gbase, self.rewound)

    def facts_about(self, symtext: str) -> List[bool]:
        """Polarities of the path-condition facts whose (whole) expression normalises to symtext."""
        return [v[0] for v in self.pc.values() if v[2] == symtext]


def _names(node) -> frozenset:
    out = set()
    for n in ast.walk(node):
        if isinstance(n, ast.Name):
            out.add(n.id)
        elif isinstance(n, ast.Attribute):
            out.add(n.attr)
    return frozenset(out)


def _const_path(node) -> Optional[str]:
    """A constant-like expression: literal or dotted name of a module-level constant / enum member."""
    if isinstance(node, ast.Constant):
        return repr(node.value)
    if isinstance(node, ast.Attribute):
        b = _const_path(node.value) if isinstance(node.value, ast.Attribute) else \
            node.value.id if isinstance(node.value, ast.Name) and node.value.id not in ("self", "cls") else None
        return None if b is None else f"{b}.{node.attr}"
    return None


def always_raises(stmts: Sequence[ast.stmt]) -> bool:
    if not stmts:
        return False
    last = stmts[-1]
    if isinstance(last, ast.Raise):
        return True
    if isinstance(last, ast.If):
        return bool(last.orelse) and always_raises(last.body) and always_raises(last.orelse)
    if isinstance(last, (ast.With,)):
        return always_raises(last.body)
    return False


def is_abstract(fi: FuncInfo) -> bool:
    for d in fi.node.decorator_list:
        t = d.attr if isinstance(d, ast.Attribute) else d.id if isinstance(d, ast.Name) else ""
        if t == "abstractmethod":
            return True
    return False


def _is_static(fi: FuncInfo) -> bool:
    return any((isinstance(d, ast.Name) and d.id == "staticmethod") for d in fi.node.decorator_list)


class Tracer:
    def __init__(self, repo: Repo, cls: Optional[ClassInfo], record: Optional[str] = "main",
                 max_depth: int = 5, max_states: int = 6000):
        self.repo = repo
        self.cls = cls
        self.record = record            # stream id whose events are recorded; None = all streams
        self.max_depth = max_depth
        self.max_states = max_states
        self.event_hooks: List[Callable] = []   # f(kind_tok, call_node, st, fr, stream_id)
        self.stmt_hooks: List[Callable] = []    # f(stmt, st, fr)   after an augmented assignment's value ran
        self.pre_stmt_hooks: List[Callable] = []  # f(stmt, st, fr) before any simple statement is evaluated
        self._fid = 0
        self._interesting: Dict[int, bool] = {}
        self.inlined: Set[str] = set()
        # closures / lambdas that are returned or handed to another callable (run later, if at all):
        # (name, file:line, names of stream objects the deferred body refers to)
        self.deferred: List[Tuple[str, str, Tuple[str, ...]]] = []
        # every predicate a branch was taken on, as (base expression, kind of test) - see gate_of
        self.gates: Set[Tuple[str, Any]] = set()
        # instance attributes holding a stream object (self.X = BufferWriter(..) somewhere in the class): a window
        # that outlives the call and is shared by re-entrant calls on the same spec object
        self.shared_streams: Set[str] = set()
        self.shared_used: Set[str] = set()
        if cls is not None:
            for c in repo.mro(cls):
                for m in c.methods.values():
                    for n in ast.walk(m.node):
                        if isinstance(n, ast.Assign) and isinstance(n.value, ast.Call) and \
                                self.is_stream_ctor(n.value):
                            for t in n.targets:
                                if isinstance(t, ast.Attribute) and isinstance(t.value, ast.Name) and t.value.id == "self":
                                    self.shared_streams.add(t.attr)
        self._state_tab: Optional[Dict[str, Dict[str, ast.AST]]] = None
        self._rewinders: Dict[str, bool] = {}

    # ------------------------------------------------------------------ entry
    def run(self, fi: FuncInfo, stream_param: Optional[str] = None, self_is_stream=False,
            value_param: Optional[str] = None) -> List[St]:
        fr = self._frame(fi, fi.cls, fi.module, 0, (fi.full,))
        st = St()
        a = fi.node.args
        params = list(a.posonlyargs) + list(a.args)
        if fi.cls is not None and fi.parent_fn is None and not _is_static(fi) and params:
            st.env[params[0].arg] = ("stream", "main") if self_is_stream else "@"
            params = params[1:]
        for p in params + list(a.kwonlyargs):
            st.env[p.arg] = ("stream", "main") if p.arg == stream_param else \
                "<value>" if p.arg == value_param else "<param>"
        if a.vararg:
            st.env[a.vararg.arg] = "<param>"
        if a.kwarg:
            st.env[a.kwarg.arg] = "<param>"
        out = self.block(fi.node.body, [st], fr)
        return [s for s in out if s.status in ("n", "ret")]

    def _frame(self, fn, dcls, mod, depth, stack) -> Frame:
        self._fid += 1
        return Frame(self._fid, fn, dcls, mod, depth, stack)

    # ------------------------------------------------------------------ symbols
    def sym(self, node, st: St, fr: Frame) -> str:
        if node is None:
            return "None"
        if isinstance(node, ast.Name):
            v = st.env.get(node.id)
            if v is None:
                return self._global_sym(node.id, fr)
            if isinstance(v, str):
                return v
            if v[0] == "stream":
                return f"<stream:{v[1]}>"
            return f"<{v[0]}>"
        if isinstance(node, ast.Attribute):
            if isinstance(node.value, ast.Name) and node.value.id not in st.env:
                tgt = fr.mod.imports.get(node.value.id)
                if tgt is not None and (tgt in self.repo.by_modname or "." not in tgt or tgt == node.value.id):
                    last = tgt.split(".")[-1]
                    if last == SER_MODULE_SUFFIX:
                        return node.attr
                    return f"{last}.{node.attr}"
            ov = self._obj_attr(node, st)
            if ov is not None:
                return ov if isinstance(ov, str) else f"<{ov[0]}:{ov[1]}>" if ov[0] == "stream" else f"<{ov[0]}>"
            b = self.sym(node.value, st, fr)
            if node.attr == "__class__" and b == "@":
                return "@"
            return f"{b}.{node.attr}"
        if isinstance(node, ast.Subscript):
            return self.sym(node.value, st, fr) + "[]"
        if isinstance(node, ast.Call):
            f = node.func
            if isinstance(f, ast.Name) and f.id not in st.env:
                if f.id == "type" and len(node.args) == 1 and self.sym(node.args[0], st, fr) == "@":
                    return "@"
                if f.id == "getattr" and len(node.args) >= 2 and isinstance(node.args[1], ast.Constant) \
                        and isinstance(node.args[1].value, str):
                    return f"{self.sym(node.args[0], st, fr)}.{node.args[1].value}"
                if f.id == "len" and len(node.args) == 1:
                    return f"len({self.sym(node.args[0], st, fr)})"
                if f.id in ("float", "int", "abs", "round", "bytes", "str", "tuple", "list") and node.args:
                    return f"{f.id}({self.sym(node.args[0], st, fr)})"
            if isinstance(f, ast.Attribute) and f.attr == "read" and node.args and self.stream_of(f.value, st) is not None:
                return f"<stream:{self.stream_of(f.value, st)}>.read({self.sym(node.args[0], st, fr)})"
            if isinstance(f, ast.Attribute) and f.attr == "deserialize" and node.args and \
                    self.stream_of(node.args[0], st) is not None:
                return f"<stream:{self.stream_of(node.args[0], st)}>.read({self.sym(f.value, st, fr)})"
            streams = [self.stream_of(a, st) for a in list(node.args) + [k.value for k in node.keywords]]
            streams = [x for x in streams if x is not None]
            if streams:     # something taken from / done with a stream
                return f"{self.sym(f, st, fr)}(<stream:{streams[0]}>)"
            return self.sym(f, st, fr) + "()"
        if isinstance(node, ast.IfExp):
            alts = sorted({self.sym(node.body, st, fr), self.sym(node.orelse, st, fr)})
            return alts[0] if len(alts) == 1 else "{" + "|".join(alts) + "}"
        if isinstance(node, ast.Constant):
            return repr(node.value)
        if isinstance(node, ast.Starred):
            return self.sym(node.value, st, fr)
        if isinstance(node, ast.BinOp) and isinstance(node.op, ast.Mult):
            for seq, cnt in ((node.left, node.right), (node.right, node.left)):
                if isinstance(seq, (ast.Tuple, ast.List)) and len(seq.elts) == 1 and not isinstance(seq.elts[0], ast.Starred):
                    return f"<rep{REP_SEP}{self.sym(seq.elts[0], st, fr)}{REP_SEP}{self.sym(cnt, st, fr)}>"
        if isinstance(node, (ast.GeneratorExp, ast.ListComp, ast.SetComp)):
            tmp = self.comp_scope(node, st, fr)
            return "[" + self.sym(node.elt, tmp, fr) + "]"
        return f"?{type(node).__name__}"

    def comp_scope(self, node, st: St, fr: Frame) -> St:
        """A state in which the comprehension's targets are bound to the elements they range over."""
        tmp = St()
        tmp.env = dict(st.env)
        for g in node.generators:
            _, _, elem = self.iter_info(g.iter, tmp, fr)
            self._bind(g.target, elem, tmp)
        return tmp

    def _global_sym(self, name: str, fr: Frame) -> str:
        tgt = fr.mod.imports.get(name)
        if tgt:
            return tgt.split(".")[-1]
        return name

    def stream_of(self, node, st: St) -> Optional[str]:
        if isinstance(node, ast.Name):
            v = st.env.get(node.id)
            if isinstance(v, tuple) and v[0] == "stream":
                return v[1]
        if isinstance(node, ast.Attribute) and isinstance(node.value, ast.Name):
            if st.env.get(node.value.id) == "@" and node.attr in self.shared_streams:
                self.shared_used.add(node.attr)
                return "inner"
            v = self._obj_attr(node, st)
            if isinstance(v, tuple) and v[0] == "stream":
                return v[1]
        return None

    @staticmethod
    def _obj_attr(node, st: St):
        """Value of `name.attr` when name is a callable object built on this path (captured constructor argument)."""
        if isinstance(node, ast.Attribute) and isinstance(node.value, ast.Name):
            v = st.env.get(node.value.id)
            if isinstance(v, tuple) and v[0] == "obj":
                return dict(v[1]).get(node.attr)
        return None

    # ------------------------------------------------------------------ state attributes set once in __init__
    def _state_tables(self) -> Dict[str, Dict[str, ast.AST]]:
        """{attr: {constant: condition}} for attributes that __init__ sets to distinct constants in an if/elif/else
        chain over other attributes of self (a flag pair folded into a state enum): testing the attribute is testing
        the condition under which it got that value."""
        if self._state_tab is not None:
            return self._state_tab
        self._state_tab = {}
        init = self.repo.lookup_method(self.cls, "__init__") if self.cls is not None else None
        if init is None:
            return self._state_tab
        a = init.node.args
        local = {p.arg for p in list(a.posonlyargs) + list(a.args) + list(a.kwonlyargs)} - {"self"}
        local |= {n.id for n in ast.walk(init.node) if isinstance(n, ast.Name) and isinstance(n.ctx, ast.Store)}
        rows: Dict[str, List[Tuple[str, List[Tuple[ast.AST, bool]]]]] = {}

        def const_store(stmts):
            out = []
            for s_ in stmts:
                if isinstance(s_, ast.Assign) and len(s_.targets) == 1 and isinstance(s_.targets[0], ast.Attribute) \
                        and isinstance(s_.targets[0].value, ast.Name) and s_.targets[0].value.id == "self":
                    k = _const_path(s_.value)
                    if k is not None:
                        out.append((s_.targets[0].attr, k))
            return out

        def chain(node: ast.If, prefix):
            if {n.id for n in ast.walk(node.test) if isinstance(n, ast.Name)} & local:
                return
            for attr, k in const_store(node.body):
                rows.setdefault(attr, []).append((k, prefix + [(node.test, True)]))
            neg = prefix + [(node.test, False)]
            if len(node.orelse) == 1 and isinstance(node.orelse[0], ast.If):
                chain(node.orelse[0], neg)
            else:
                for attr, k in const_store(node.orelse):
                    rows.setdefault(attr, []).append((k, neg))
        for s_ in init.node.body:
            if isinstance(s_, ast.If):
                chain(s_, [])
        # the attribute must be written nowhere else, and to distinct constants
        for attr, rs in rows.items():
            n_stores = 0
            for c in self.repo.mro(self.cls):
                for m in c.methods.values():
                    for n in ast.walk(m.node):
                        if isinstance(n, ast.Attribute) and isinstance(n.ctx, ast.Store) and n.attr == attr:
                            n_stores += 1
            if n_stores != len(rs) or len({k for k, _ in rs}) != len(rs) or len(rs) < 2:
                continue
            tab = {}
            for k, conds in rs:
                vals = [t if pol else ast.UnaryOp(op=ast.Not(), operand=t) for t, pol in conds]
                tab[k] = vals[0] if len(vals) == 1 else ast.BoolOp(op=ast.And(), values=vals)
            self._state_tab[attr] = tab
        return self._state_tab

    def derive(self, test, st: St, fr: Frame):
        """Rewrite tests of a state attribute (see _state_tables) into the conditions that define the state."""
        if self.cls is None:
            return test
        if isinstance(test, ast.BoolOp):
            vals = [self.derive(v, st, fr) for v in test.values]
            return test if all(a is b for a, b in zip(vals, test.values)) else ast.BoolOp(op=test.op, values=vals)
        if isinstance(test, ast.UnaryOp) and isinstance(test.op, ast.Not):
            v = self.derive(test.operand, st, fr)
            return test if v is test.operand else ast.UnaryOp(op=ast.Not(), operand=v)
        if isinstance(test, ast.Compare) and len(test.ops) == 1 and \
                isinstance(test.ops[0], (ast.Is, ast.IsNot, ast.Eq, ast.NotEq)):
            for l, r in ((test.left, test.comparators[0]), (test.comparators[0], test.left)):
                if isinstance(l, ast.Attribute) and isinstance(l.value, ast.Name) and st.env.get(l.value.id) == "@":
                    tab = self._state_tables().get(l.attr)
                    k = _const_path(r)
                    if tab and k in tab:
                        cond = tab[k]
                        if isinstance(test.ops[0], (ast.IsNot, ast.NotEq)):
                            cond = ast.UnaryOp(op=ast.Not(), operand=cond)
                        return cond
        return test

    # ------------------------------------------------------------------ path conditions / guards
    def _k(self, e, fr, st=None):
        if st is not None and isinstance(e, (ast.Attribute, ast.Name, ast.Subscript)):
            s = self.sym(e, st, fr)
            if s != "@" and SPEC_PATH.fullmatch(s):
                return ("@", s)          # a fact about the spec object itself: the same in every frame
        return (fr.fid, ast.dump(e))

    def tv(self, test, st: St, fr: Frame) -> Optional[bool]:
        test = self.derive(test, st, fr)
        hit = st.pc.get(self._k(test, fr, st))
        if hit is not None:
            return hit[0]
        if isinstance(test, ast.Compare) and len(test.ops) == 1 and isinstance(test.ops[0], (ast.Is, ast.IsNot)) \
                and isinstance(test.comparators[0], ast.Constant) and test.comparators[0].value is None:
            # attributes of the spec object are None or an object: `X is not None` answers like `X`
            k = self._k(test.left, fr, st)
            if k[0] == "@" and k in st.pc:
                truthy = st.pc[k][0]
                return truthy if isinstance(test.ops[0], ast.IsNot) else (not truthy)
        if isinstance(test, ast.UnaryOp) and isinstance(test.op, ast.Not):
            v = self.tv(test.operand, st, fr)
            return None if v is None else (not v)
        if isinstance(test, ast.BoolOp):
            vals = [self.tv(v, st, fr) for v in test.values]
            if isinstance(test.op, ast.And):
                if any(v is False for v in vals):
                    return False
                if all(v is True for v in vals):
                    return True
            else:
                if any(v is True for v in vals):
                    return True
                if all(v is False for v in vals):
                    return False
            return None
        if isinstance(test, ast.Constant):
            return bool(test.value)
        return None

    def assume(self, test, pol: bool, st: St, fr: Frame, _depth=0):
        test = self.derive(test, st, fr)
        for e, p in atoms(test, pol):
            st.pc[self._k(e, fr, st)] = (p, _names(e), self.sym(e, st, fr), self.gate_of(e, st, fr))
            # unit propagation: not (A and B) with A known true gives not B;  (A or B) with A known false gives B
            if isinstance(e, ast.BoolOp) and _depth < 4 and \
                    (isinstance(e.op, ast.And) and not p or isinstance(e.op, ast.Or) and p):
                want = isinstance(e.op, ast.Or)
                vals = [(v, self.tv(v, st, fr)) for v in e.values]
                unknown = [v for v, t in vals if t is None]
                if len(unknown) == 1 and not any(t is want for _, t in vals):
                    self.assume(unknown[0], want, st, fr, _depth + 1)
            if isinstance(e, ast.Compare) and len(e.ops) == 1 and isinstance(e.ops[0], (ast.Is, ast.IsNot)) \
                    and isinstance(e.comparators[0], ast.Constant) and e.comparators[0].value is None:
                k = self._k(e.left, fr, st)
                if k[0] == "@" and k not in st.pc:
                    st.pc[k] = (p if isinstance(e.ops[0], ast.IsNot) else (not p), _names(e.left), k[1])
        self._collect_gates(test, st, fr)

    # -- gate predicates: what is tested about which expression (polarity and boolean structure dropped)
    _OPSYM = {ast.BitAnd: "&", ast.BitOr: "|", ast.BitXor: "^", ast.Add: "+", ast.Sub: "-", ast.Mult: "*",
              ast.LShift: "<<", ast.RShift: ">>", ast.FloorDiv: "//", ast.Mod: "%", ast.Div: "/"}

    def cexpr(self, node, st: St, fr: Frame) -> str:
        if isinstance(node, ast.BinOp) and type(node.op) in self._OPSYM:
            l, r = self.cexpr(node.left, st, fr), self.cexpr(node.right, st, fr)
            if isinstance(node.op, (ast.BitAnd, ast.BitOr, ast.BitXor, ast.Add, ast.Mult)):
                l, r = sorted((l, r))                    # commutative
            return f"({l} {self._OPSYM[type(node.op)]} {r})"
        if isinstance(node, ast.UnaryOp) and isinstance(node.op, (ast.USub, ast.Invert)):
            return f"({'-' if isinstance(node.op, ast.USub) else '~'}{self.cexpr(node.operand, st, fr)})"
        if isinstance(node, ast.Call) and not (isinstance(node.func, ast.Name) and node.func.id in ("len", "getattr", "type")):
            args = [self.cexpr(a, st, fr) for a in node.args] + [f"{k.arg}={self.cexpr(k.value, st, fr)}" for k in node.keywords]
            return f"{self.sym(node.func, st, fr)}({','.join(args)})"
        return self.sym(node, st, fr)

    def gate_of(self, e, st: St, fr: Frame):
        while True:
            if isinstance(e, ast.UnaryOp) and isinstance(e.op, ast.Not):
                e = e.operand
            elif isinstance(e, ast.Call) and isinstance(e.func, ast.Name) and e.func.id == "bool" and len(e.args) == 1 \
                    and not e.keywords and "bool" not in st.env:
                e = e.args[0]                    # bool(x) asks for the truth of x
            else:
                break
        if isinstance(e, ast.Compare) and len(e.ops) == 1:
            op, l, r = e.ops[0], e.left, e.comparators[0]
            if isinstance(op, (ast.Is, ast.IsNot)) and isinstance(r, ast.Constant) and r.value is None:
                return self.cexpr(l, st, fr), "none-test"
            if isinstance(l, ast.Constant) and not isinstance(r, ast.Constant) and not isinstance(op, (ast.In, ast.NotIn)):
                l, r = r, l
                op = {ast.Lt: ast.Gt, ast.Gt: ast.Lt, ast.LtE: ast.GtE, ast.GtE: ast.LtE}.get(type(op), type(op))()
            k = "eq" if isinstance(op, (ast.Eq, ast.NotEq)) else "lt" if isinstance(op, (ast.Lt, ast.GtE)) else \
                "gt" if isinstance(op, (ast.Gt, ast.LtE)) else "in" if isinstance(op, (ast.In, ast.NotIn)) else \
                "is" if isinstance(op, (ast.Is, ast.IsNot)) else "?"
            return self.cexpr(l, st, fr), (k, self.cexpr(r, st, fr))
        return self.cexpr(e, st, fr), "truthy"

    @staticmethod
    def gates_at(st: St):
        """(base, kind) of every atomic fact the path currently holds."""
        return [v[3] for v in st.pc.values() if len(v) > 3 and v[3] is not None]

    def _collect_gates(self, test, st: St, fr: Frame):
        if isinstance(test, ast.BoolOp):
            for v in test.values:
                self._collect_gates(v, st, fr)
        elif isinstance(test, ast.UnaryOp) and isinstance(test.op, ast.Not):
            self._collect_gates(test.operand, st, fr)
        else:
            self.gates.add(self.gate_of(test, st, fr))

    def add_guard(self, test, pol: bool, st: St, fr: Frame):
        g = Guard(id(test), pol, len(st.tok), st.loopdepth > 0, test, dict(st.env), fr)
        st.guards = st.guards + (g,)

    def _invalidate(self, st: St, names: Sequence[str]):
        ns = set(names)
        if not ns:
            return
        for k in [k for k, v in st.pc.items() if v[1] & ns]:
            del st.pc[k]

    # ------------------------------------------------------------------ blocks / statements
    def _dedupe(self, states: List[St]) -> List[St]:
        seen, out = set(), []
        for s in states:
            k = s.key()
            if k not in seen:
                seen.add(k)
                out.append(s)
        if len(out) > self.max_states:
            raise AnalysisError(f"wiretrace: more than {self.max_states} abstract paths (unsupported shape)")
        return out

    def block(self, stmts, states: List[St], fr: Frame) -> List[St]:
        for s in stmts:
            nxt: List[St] = []
            for st in states:
                if st.status != "n":
                    nxt.append(st)
                else:
                    nxt.extend(self.stmt(s, st, fr))
            states = self._dedupe(nxt)
        return states

    def _fm(self, states: List[St], f) -> List[St]:
        out: List[St] = []
        for s in states:
            if s.status != "n":
                out.append(s)
            else:
                out.extend(f(s))
        return out

    def stmt(self, s, st: St, fr: Frame) -> List[St]:
        if self.pre_stmt_hooks and isinstance(s, (ast.Expr, ast.Assign, ast.AnnAssign, ast.AugAssign, ast.Return,
                                                  ast.For)):
            for h in self.pre_stmt_hooks:
                h(s, st, fr)
        if isinstance(s, ast.Expr):
            return self.expr(s.value, st, fr)
        if isinstance(s, ast.Assign):
            states = self.expr(s.value, st, fr)
            for x in states:
                if x.status == "n":
                    for t in s.targets:
                        self._assign(t, s.value, x, fr)
            return states
        if isinstance(s, ast.AnnAssign):
            if s.value is None:
                return [st]
            states = self.expr(s.value, st, fr)
            for x in states:
                if x.status == "n":
                    self._assign(s.target, s.value, x, fr)
            return states
        if isinstance(s, ast.AugAssign):
            states = self.expr(s.value, st, fr)
            for x in states:
                if x.status != "n":
                    continue
                for h in self.stmt_hooks:
                    h(s, x, fr)
                if isinstance(s.target, ast.Name):
                    x.env[s.target.id] = "?aug"
                self._invalidate(x, list(_names(s.target)))
            return states
        if isinstance(s, ast.Return):
            states = self.expr(s.value, st, fr) if s.value is not None else [st]
            out = []
            for x in states:
                if x.status == "n" and isinstance(s.value, ast.Name):
                    v = x.env.get(s.value.id)
                    if isinstance(v, tuple) and v[0] == "closure":
                        # a returned closure is assumed to be run later by the receiver
                        for y in self._inline_closure(v[1], [], [], x, fr, deferred=True):
                            if y.status == "n":
                                y.status = "ret"
                            out.append(y)
                        continue
                if x.status == "n" and isinstance(s.value, ast.Lambda):
                    for y in self._deferred_lambda(s.value, x, fr):
                        if y.status == "n":
                            y.status = "ret"
                        out.append(y)
                    continue
                if x.status == "n":
                    x.status = "ret"
                out.append(x)
            return out
        if isinstance(s, ast.Raise):
            st.status = "raise"
            return [st]
        if isinstance(s, ast.If):
            return self._if(s, st, fr)
        if isinstance(s, (ast.For, ast.AsyncFor)):
            return self._fm(self.expr(s.iter, st, fr), lambda x: self._for(s, x, fr))
        if isinstance(s, ast.While):
            return self._while(s, st, fr)
        if isinstance(s, (ast.With, ast.AsyncWith)):
            states = [st]
            for item in s.items:
                states = self._fm(states, lambda x, item=item: self.expr(item.context_expr, x, fr))
                for x in states:
                    if x.status == "n" and item.optional_vars is not None:
                        self._assign(item.optional_vars, item.context_expr, x, fr)
            marks = []
            for item in s.items:
                c = item.context_expr
                if isinstance(c, ast.Call) and isinstance(c.func, ast.Attribute) and self.is_rewinding_cm(c.func.attr):
                    marks.append(self.stream_of(c.func.value, st))
            if not any(m is not None for m in marks):
                return self.block(s.body, states, fr)
            out = []
            for x in states:
                if x.status != "n":
                    out.append(x)
                    continue
                n0 = len(x.tok)
                for y in self.block(s.body, [x], fr):
                    # the position is restored on every exit: what the body read was only peeked at
                    if any(m is not None and self.record in (None, m) for m in marks):
                        y.tok = y.tok[:n0]
                    y.rewound = True
                    out.append(y)
            return out
        if isinstance(s, ast.Try):
            return self._try(s, st, fr)
        if isinstance(s, ast.Assert):
            states = self.expr(s.test, st, fr)
            for x in states:
                if x.status == "n":
                    self.assume(s.test, True, x, fr)
                    self.add_guard(s.test, True, x, fr)
            return states
        if isinstance(s, FUNC_TYPES):
            st.env[s.name] = ("closure", s)
            return [st]
        if isinstance(s, ast.Break):
            st.status = "brk"
            return [st]
        if isinstance(s, ast.Continue):
            st.status = "cont"
            return [st]
        if isinstance(s, (ast.Pass, ast.Global, ast.Nonlocal, ast.Import, ast.ImportFrom, ast.ClassDef)):
            return [st]
        if isinstance(s, ast.Delete):
            for t in s.targets:
                self._invalidate(st, list(_names(t)))
            return [st]
        raise AnalysisError(f"wiretrace: unsupported statement {type(s).__name__} at "
                            f"{fr.mod.rel}:{getattr(s, 'lineno', 0)}")

    def _assign(self, target, value, st: St, fr: Frame):
        if isinstance(target, ast.Name):
            val: Any
            if isinstance(value, ast.Call) and self.is_stream_ctor(value, st):
                val = ("stream", "inner")
                if self.record in (None, "inner"):
                    st.tok = st.tok + (("O",),)      # a local window is opened on this path
            elif isinstance(value, ast.Name) and isinstance(st.env.get(value.id), tuple):
                val = st.env[value.id]
            elif isinstance(value, ast.Call) and self._returns_fresh_stream(value, st, fr):
                val = ("stream", "inner")            # a helper that builds the window for this call
                if self.record in (None, "inner"):
                    st.tok = st.tok + (("O",),)
            elif isinstance(value, ast.Attribute) and self.stream_of(value, st) is not None:
                val = ("stream", self.stream_of(value, st))
                if self.record in (None, val[1]):
                    st.tok = st.tok + (("O",),)
            elif isinstance(value, ast.Call) and isinstance(value.func, ast.Attribute) and value.func.attr == "tell" \
                    and not value.args and self.stream_of(value.func.value, st) is not None:
                # a remembered stream position: seeking back to it un-consumes what was read since
                val = ("pos", self.stream_of(value.func.value, st), st.loopdepth, len(st.tok))
            elif self._is_sentinel_iter_call(value) and self.sentinel_iter(value, st) is not None:
                val = ("sentiter", self.sentinel_iter(value, st)[0])
            elif isinstance(value, ast.Lambda):
                val = "<lambda>"
            else:
                val = self.sym(value, st, fr)
            self._invalidate(st, [target.id])
            st.env[target.id] = val
        elif isinstance(target, (ast.Tuple, ast.List)):
            if isinstance(value, (ast.Tuple, ast.List)) and len(value.elts) == len(target.elts):
                vals = [self.sym(v, st, fr) for v in value.elts]
                for t, v in zip(target.elts, vals):
                    self._bind(t, v, st)
            else:
                base = self.sym(value, st, fr) if isinstance(value, ast.AST) else str(value)
                for t in target.elts:
                    self._bind(t, base + "[]", st)
        elif isinstance(target, ast.Starred):
            self._assign(target.value, value, st, fr)
        else:
            self._invalidate(st, list(_names(target)))

    def _bind(self, target, symval, st: St):
        """Bind a (possibly nested) loop/unpack target to symbols."""
        if isinstance(target, ast.Name):
            self._invalidate(st, [target.id])
            st.env[target.id] = symval if isinstance(symval, str) else "<elem>"
        elif isinstance(target, (ast.Tuple, ast.List)):
            if isinstance(symval, (list, tuple)) and len(symval) == len(target.elts):
                for t, v in zip(target.elts, symval):
                    self._bind(t, v, st)
            else:
                base = symval if isinstance(symval, str) else "<elem>"
                for t in target.elts:
                    self._bind(t, base + "[]", st)
        elif isinstance(target, ast.Starred):
            self._bind(target.value, symval, st)
        else:
            self._invalidate(st, list(_names(target)))

    @staticmethod
    def _callee_last(c: ast.Call) -> Optional[str]:
        f = c.func
        if isinstance(f, ast.Attribute):
            return f.attr
        if isinstance(f, ast.Name):
            return f.id
        return None

    def _if(self, s: ast.If, st: St, fr: Frame) -> List[St]:
        out: List[St] = []
        body_raises = always_raises(s.body)
        else_raises = bool(s.orelse) and always_raises(s.orelse)
        for x in self.expr(s.test, st, fr):
            if x.status != "n":
                out.append(x)
                continue
            v = self.tv(s.test, x, fr)
            if v is not False:
                b = x.copy() if v is None else x
                self.assume(s.test, True, b, fr)
                if else_raises:
                    self.add_guard(s.test, True, b, fr)
                out.extend(self.block(s.body, [b], fr))
            if v is not True:
                e = x
                self.assume(s.test, False, e, fr)
                if body_raises:
                    self.add_guard(s.test, False, e, fr)
                out.extend(self.block(s.orelse, [e], fr) if s.orelse else [e])
        return out

    # ------------------------------------------------------------------ loops
    def iter_info(self, it, st: St, fr: Frame):
        """-> (sources, count, elem) ; elem is a symbol or a list of symbols (tuple targets)."""
        if isinstance(it, ast.Call):
            f = it.func
            if isinstance(f, ast.Name) and f.id not in st.env:
                if f.id == "zip":
                    srcs, elems = [], []
                    for a in it.args:
                        s, _, e = self.iter_info(a, st, fr)
                        srcs.extend(s)
                        elems.append(e)
                    return srcs, None, elems
                if f.id == "enumerate" and it.args:
                    s, c, e = self.iter_info(it.args[0], st, fr)
                    return s, c, ["<idx>", e]
                if f.id in ("reversed", "sorted") and it.args:
                    s, c, e = self.iter_info(it.args[0], st, fr)
                    return [x + "~" + f.id for x in s], c, e
                if f.id in ("iter", "list", "tuple") and len(it.args) == 1:
                    return self.iter_info(it.args[0], st, fr)
                if f.id == "range":
                    cnt = self.sym(it.args[0], st, fr) if len(it.args) == 1 else "?"
                    return [], cnt, "<idx>"
            if isinstance(f, ast.Attribute) and not it.args and f.attr in ("items", "values", "keys"):
                base = self.sym(f.value, st, fr)
                if f.attr == "items":
                    return [base], None, [base + "[key]", base + "[]"]
                if f.attr == "values":
                    return [base], None, base + "[]"
                return [base], None, base + "[key]"
        base = self.sym(it, st, fr)
        if base.startswith("<rep" + REP_SEP) and base.endswith(">"):
            _, elem, cnt = base[:-1].split(REP_SEP, 2)          # (X,) * N : N times the same element
            return [], cnt, elem
        return [base], None, base + "[]"

    @staticmethod
    def loop_kind(sources: Sequence[str]) -> str:
        spec = sorted({s for s in sources if SPEC_PATH.fullmatch(s.split("~")[0])})
        return "spec:" + ",".join(spec) if spec else "rep"

    @staticmethod
    def make_star(kind, count, alts):
        alts = sorted({w for w in alts if w}, key=repr)
        if not alts:
            return None
        return ("*", kind, count, tuple(alts))

    def _loop(self, st: St, fr: Frame, kind, count, run_body, assigned: Set[str], orelse=None,
              infinite=False) -> List[St]:
        b0 = st.copy()
        b0.tok = ()
        b0.gbase = len(b0.guards)
        b0.loopdepth += 1
        self._invalidate(b0, list(assigned))
        res = run_body(b0)
        alts, brks, rets, normal_envs = set(), [], [], []
        for r in res:
            if r.status in ("n", "cont"):
                alts.add(r.tok)
                normal_envs.append(r.env)
            elif r.status == "brk":
                brks.append(r)
            elif r.status == "ret":
                rets.append(r)
        star = self.make_star(kind, count, alts)
        base_tok = st.tok + ((star,) if star else ())
        out: List[St] = []
        if not infinite:
            n = st.copy()
            n.tok = base_tok
            self._invalidate(n, list(assigned))
            for name in assigned:
                vals = {repr(e.get(name)) for e in normal_envs}
                if len(vals) == 1 and normal_envs and isinstance(normal_envs[0].get(name), tuple):
                    n.env[name] = normal_envs[0][name]
                elif name in n.env or vals:
                    n.env[name] = "<loopvar>" if not isinstance(n.env.get(name), tuple) else n.env[name]
            if orelse:
                out.extend(self.block(orelse, [n], fr))
            else:
                out.append(n)
        for r in brks + rets:
            x = st.copy()
            x.tok = base_tok + r.tok
            x.env = dict(r.env)
            x.pc = dict(r.pc)
            x.status = "n" if r.status == "brk" else "ret"
            out.append(x)
        return self._dedupe(out)

    @staticmethod
    def _assigned_names(nodes) -> Set[str]:
        out = set()
        for n in nodes:
            for x in ast.walk(n):
                if isinstance(x, ast.Name) and isinstance(x.ctx, (ast.Store, ast.Del)):
                    out.add(x.id)
        return out

    @staticmethod
    def _is_sentinel_iter_call(node) -> bool:
        return isinstance(node, ast.Call) and isinstance(node.func, ast.Name) and node.func.id == "iter" \
            and len(node.args) == 2 and not node.keywords

    def sentinel_iter(self, it, st: St):
        """`iter(callable, sentinel)`, directly or through a local, optionally under islice(.., n):
        -> (callable node, count expr or None) - a read-until-sentinel loop: the callable runs at the start of
        every iteration and the loop ends when it returns the sentinel (or after n rounds)."""
        count = None
        if isinstance(it, ast.Call) and self._callee_last(it) == "islice" and len(it.args) == 2:
            count = it.args[1]
            it = it.args[0]
        fn = None
        if self._is_sentinel_iter_call(it):
            fn = it.args[0]
            if isinstance(fn, ast.Name):
                v = st.env.get(fn.id)
                fn = v[1] if isinstance(v, tuple) and v[0] == "closure" else None
        elif isinstance(it, ast.Name):
            v = st.env.get(it.id)
            if isinstance(v, tuple) and v[0] == "sentiter":
                fn = v[1]
        if fn is None or not isinstance(fn, (ast.Lambda,) + FUNC_TYPES):
            return None
        return fn, count

    def _pull_sentinel(self, fn, b: St, fr: Frame) -> List[St]:
        """One next() of a sentinel iterator: the callable's events, then either the sentinel (loop ends) or a value."""
        if isinstance(fn, ast.Lambda):
            pulled = self.expr(fn.body, b, fr)
        else:
            pulled = self._inline_closure(fn, [], [], b, fr)
        out = []
        for y in pulled:
            if y.status != "n":
                out.append(y)
                continue
            stop = y.copy()
            stop.status = "brk"
            out.append(stop)
            out.append(y)
        return out

    def _for(self, s, st: St, fr: Frame) -> List[St]:
        assigned = self._assigned_names(s.body + [s.target])
        si = self.sentinel_iter(s.iter, st)
        if si is not None:
            fn, count = si

            def sbody(b: St):
                states = self._pull_sentinel(fn, b, fr)
                for y in states:
                    if y.status == "n":
                        self._bind(s.target, "<pulled:<stream:>>", y)
                return self.block(s.body, states, fr)
            return self._loop(st, fr, "rep", self.sym(count, st, fr) if count is not None else None, sbody, assigned,
                              s.orelse, infinite=count is None)
        sources, count, elem = self.iter_info(s.iter, st, fr)
        kind = self.loop_kind(sources)

        def body(b: St):
            self._bind(s.target, elem, b)
            return self.block(s.body, [b], fr)
        return self._loop(st, fr, kind, count, body, assigned, s.orelse)

    def _while(self, s: ast.While, st: St, fr: Frame) -> List[St]:
        infinite = isinstance(s.test, ast.Constant) and bool(s.test.value)
        assigned = self._assigned_names(s.body)

        def body(b: St):
            states = self.expr(s.test, b, fr)
            for x in states:
                if x.status == "n":
                    self.assume(s.test, True, x, fr)
            return self.block(s.body, states, fr)
        return self._loop(st, fr, "rep", None, body, assigned, s.orelse, infinite)

    def _comp(self, node, elts, st: St, fr: Frame) -> List[St]:
        gens = node.generators
        saved_env = dict(st.env)

        def level(i, x: St) -> List[St]:
            if i == len(gens):
                states = [x]
                for e in elts:
                    states = self._fm(states, lambda y, e=e: self.expr(e, y, fr))
                return states
            g = gens[i]
            si = self.sentinel_iter(g.iter, x)
            pre = [x] if si is not None else self.expr(g.iter, x, fr)
            out = []
            for p in pre:
                if p.status != "n":
                    out.append(p)
                    continue
                if si is not None:
                    sources, count, elem = [], (self.sym(si[1], p, fr) if si[1] is not None else None), "<pulled:<stream:>>"
                else:
                    sources, count, elem = self.iter_info(g.iter, p, fr)
                kind = self.loop_kind(sources)
                assigned = self._assigned_names([g.target])

                def body(b: St, g=g, elem=elem, i=i, si=si):
                    states = self._pull_sentinel(si[0], b, fr) if si is not None else [b]
                    for y in states:
                        if y.status == "n":
                            self._bind(g.target, elem, y)
                    for c in g.ifs:
                        nxt = []
                        for y in states:
                            if y.status != "n":
                                nxt.append(y)
                                continue
                            for z in self.expr(c, y, fr):
                                if z.status != "n":
                                    nxt.append(z)
                                    continue
                                v = self.tv(c, z, fr)
                                if v is not True:
                                    skip = z.copy()
                                    skip.status = "cont"
                                    nxt.append(skip)
                                if v is not False:
                                    self.assume(c, True, z, fr)
                                    nxt.append(z)
                        states = nxt
                    return self._fm(states, lambda y: level(i + 1, y))
                out.extend(self._loop(p, fr, kind, count, body, assigned,
                                      infinite=si is not None and si[1] is None))
            return out
        res = level(0, st)
        for r in res:
            # comprehension targets are local to it
            for k in list(r.env):
                if k not in saved_env:
                    del r.env[k]
            for k, v in saved_env.items():
                r.env[k] = v
        return res

    def _try(self, s: ast.Try, st: St, fr: Frame) -> List[St]:
        pre = st.copy()
        out = self.block(s.body, [st], fr)
        if s.orelse:
            out = self.block(s.orelse, out, fr)
        for h in s.handlers:
            hs = pre.copy()
            if h.name:
                hs.env[h.name] = "<exc>"
            out.extend(self.block(h.body, [hs], fr))
        if s.finalbody:
            fin = []
            for x in out:
                status = x.status
                x.status = "n"
                for y in self.block(s.finalbody, [x], fr):
                    if y.status == "n":
                        y.status = status
                    fin.append(y)
            out = fin
        return self._dedupe(out)

    # ------------------------------------------------------------------ expressions
    def _has_call(self, node) -> bool:
        k = id(node)
        hit = self._interesting.get(k)
        if hit is None:
            hit = False
            stack = [node]
            while stack:
                n = stack.pop()
                if isinstance(n, ast.Call):
                    hit = True
                    break
                if isinstance(n, ast.Lambda):
                    continue
                stack.extend(ast.iter_child_nodes(n))
            self._interesting[k] = hit
        return hit

    def expr(self, node, st: St, fr: Frame) -> List[St]:
        if node is None or not self._has_call(node):
            return [st]
        if isinstance(node, ast.Call):
            return self._call(node, st, fr)
        if isinstance(node, (ast.ListComp, ast.SetComp, ast.GeneratorExp)):
            return self._comp(node, [node.elt], st, fr)
        if isinstance(node, ast.DictComp):
            return self._comp(node, [node.key, node.value], st, fr)
        if isinstance(node, ast.Lambda):
            return [st]
        if isinstance(node, ast.IfExp):
            out = []
            for x in self.expr(node.test, st, fr):
                if x.status != "n":
                    out.append(x)
                    continue
                v = self.tv(node.test, x, fr)
                if v is not False:
                    b = x.copy() if v is None else x
                    self.assume(node.test, True, b, fr)
                    out.extend(self.expr(node.body, b, fr))
                if v is not True:
                    self.assume(node.test, False, x, fr)
                    out.extend(self.expr(node.orelse, x, fr))
            return out
        if isinstance(node, ast.BoolOp):
            states = self.expr(node.values[0], st, fr)
            for v in node.values[1:]:
                if not self._has_call(v):
                    continue
                nxt = []
                for x in states:
                    if x.status != "n":
                        nxt.append(x)
                        continue
                    nxt.append(x.copy())                  # short-circuited here
                    nxt.extend(self.expr(v, x, fr))
                states = nxt
            return states
        states = [st]
        for ch in ast.iter_child_nodes(node):
            if isinstance(ch, ast.keyword):
                ch = ch.value
            if isinstance(ch, ast.expr):
                states = self._fm(states, lambda x, ch=ch: self.expr(ch, x, fr))
        return states

    def _call(self, node: ast.Call, st: St, fr: Frame) -> List[St]:
        f = node.func
        states = [st]
        if isinstance(f, ast.Attribute):
            states = self._fm(states, lambda x: self.expr(f.value, x, fr))
        for a in node.args:
            states = self._fm(states, lambda x, a=a: self.expr(a, x, fr))
        for k in node.keywords:
            states = self._fm(states, lambda x, k=k: self.expr(k.value, x, fr))
        return self._fm(states, lambda x: self._apply_call(node, x, fr))

    def _event(self, st: St, sid: str, tok, node, fr: Frame):
        for h in self.event_hooks:
            h(tok, node, st, fr, sid)
        if self.record is None or self.record == sid:
            st.tok = st.tok + (tok,)

    @staticmethod
    def _flag(node: ast.Call, name: str, pos: int) -> bool:
        for k in node.keywords:
            if k.arg == name:
                return not (isinstance(k.value, ast.Constant) and not k.value.value)
        if len(node.args) > pos:
            a = node.args[pos]
            return not (isinstance(a, ast.Constant) and not a.value)
        return False

    @staticmethod
    def _is_super(n) -> bool:
        return isinstance(n, ast.Call) and isinstance(n.func, ast.Name) and n.func.id == "super"

    def _apply_call(self, node: ast.Call, st: St, fr: Frame) -> List[St]:
        f = node.func
        attr = f.attr if isinstance(f, ast.Attribute) else None
        recv_stream = self.stream_of(f.value, st) if attr else None
        if recv_stream is None and attr and isinstance(f.value, ast.Attribute):
            recv_stream = self.stream_of(f.value, st)
        arg_streams = [self.stream_of(a, st) for a in node.args] + [self.stream_of(k.value, st) for k in node.keywords]
        arg_streams = [s for s in arg_streams if s is not None]
        if recv_stream is not None:
            if attr == "write" and node.args:
                self._event(st, recv_stream, ("E", self.sym(node.args[0], st, fr)), node, fr)
            elif attr == "read" and node.args:
                if not self._flag(node, "peek", 2):
                    self._event(st, recv_stream, ("E", self.sym(node.args[0], st, fr)), node, fr)
            elif attr == "write_bytes":
                a0 = node.args[0] if node.args else None
                one = (isinstance(a0, (ast.Tuple, ast.List)) and len(a0.elts) == 1
                       and not isinstance(a0.elts[0], ast.Starred)) or \
                    (isinstance(a0, ast.Constant) and isinstance(a0.value, bytes) and len(a0.value) == 1)
                self._event(st, recv_stream, ("B", "1" if one else None), node, fr)
            elif attr == "read_bytes":
                if not self._flag(node, "peek", 1):
                    n = node.args[0] if node.args else next((k.value for k in node.keywords if k.arg == "num_bytes"), None)
                    self._event(st, recv_stream, ("B", self.sym(n, st, fr)), node, fr)
            elif attr in NEUTRAL_STREAM_METHODS or self.is_rewinding_cm(attr):
                pass
            elif attr == "clear" and not node.args:
                if self.record in (None, recv_stream):
                    st.tok = st.tok + (("O",),)      # the window is emptied: what follows is a fresh window
            elif attr == "seek":
                self._seek(node, recv_stream, st, fr)
            else:
                self._event(st, recv_stream, ("X", f"call:{attr}"), node, fr)
            return [st]
        if attr in ("serialize", "deserialize") and arg_streams:
            if self._is_super(f.value):
                inl = self.try_inline(node, st, fr)
                if inl is not None:
                    return inl
                self._event(st, arg_streams[0], ("X", f"handoff:super().{attr}"), node, fr)
                return [st]
            self._event(st, arg_streams[0], ("E", self.sym(f.value, st, fr)), node, fr)
            return [st]
        if isinstance(f, ast.Name) and f.id in PURE_BUILTINS and f.id not in st.env:
            return [st]
        if self._is_sentinel_iter_call(node) and "iter" not in st.env:
            return [st]          # the callable runs when the iterator is pulled (see sentinel_iter), not "later"
        cc = self._callable_class(node, st, fr)
        if cc is not None:
            return self._deferred_callable(cc, node, st, fr)
        inl = self.try_inline(node, st, fr)
        if inl is not None:
            return inl
        for sid in arg_streams:
            self._event(st, sid, ("X", f"handoff:{self.sym(f, st, fr)}"), node, fr)
        # closures handed to someone else are assumed to be run by the receiver
        states = [st]
        for a in list(node.args) + [k.value for k in node.keywords]:
            if isinstance(a, ast.Name):
                v = st.env.get(a.id)
                if isinstance(v, tuple) and v[0] == "closure":
                    states = self._fm(states, lambda x, v=v: self._inline_closure(v[1], [], [], x, fr, deferred=True))
            elif isinstance(a, ast.Lambda):
                states = self._fm(states, lambda x, a=a: self._deferred_lambda(a, x, fr))
        return states

    def _seek(self, node: ast.Call, sid: str, st: St, fr: Frame):
        pos = node.args[0] if node.args else next((k.value for k in node.keywords if k.arg == "pos"), None)
        wh = node.args[1] if len(node.args) > 1 else next((k.value for k in node.keywords if k.arg == "whence"), None)
        whs = self.sym(wh, st, fr).split(".")[-1] if wh is not None else "SEEK_SET"
        if isinstance(pos, ast.Name) and whs == "SEEK_SET":
            v = st.env.get(pos.id)
            if isinstance(v, tuple) and v[0] == "pos" and v[1] == sid and v[2] == st.loopdepth:
                if self.record in (None, sid):
                    st.tok = st.tok[:v[3]]
                st.rewound = True
                return
        if isinstance(pos, ast.Constant) and pos.value == 0 and whs == "SEEK_CUR":
            return                                       # relative seek by nothing
        self._event(st, sid, ("X", "seek"), node, fr)

    def _stream_refs(self, body_nodes, params: Set[str], st: St) -> Tuple[str, ...]:
        local = set(params)
        for n in body_nodes:
            for x in ast.walk(n):
                if isinstance(x, ast.Name) and isinstance(x.ctx, ast.Store):
                    local.add(x.id)
        refs = set()
        for n in body_nodes:
            for x in ast.walk(n):
                if isinstance(x, ast.Name) and isinstance(x.ctx, ast.Load) and x.id not in local:
                    v = st.env.get(x.id)
                    if isinstance(v, tuple) and v[0] == "stream":
                        refs.add(x.id)
        return tuple(sorted(refs))

    def _deferred_lambda(self, lam: ast.Lambda, st: St, fr: Frame) -> List[St]:
        a = lam.args
        params = {p.arg for p in list(a.posonlyargs) + list(a.args) + list(a.kwonlyargs)}
        self.deferred.append(("<lambda>", f"{fr.mod.rel}:{lam.lineno}", self._stream_refs([lam.body], params, st)))
        saved = dict(st.env)
        for p in params:
            st.env[p] = "<param>"
        out = []
        for r in self.expr(lam.body, st, fr):
            if r.status == "raise":
                continue
            r.env = dict(saved)
            out.append(r)
        return out

    # ------------------------------------------------------------------ inlining
    def _resolve(self, node: ast.Call, st: St, fr: Frame):
        f = node.func
        if isinstance(f, ast.Attribute):
            if (isinstance(f.value, ast.Name) and st.env.get(f.value.id) == "@") or self._obj_attr(f.value, st) == "@":
                base = self.cls or fr.dcls
                return self.repo.lookup_method(base, f.attr) if base is not None else None
            if self._is_super(f.value) and fr.dcls is not None:
                for c in self.repo.mro(fr.dcls)[1:]:
                    if f.attr in c.methods:
                        return c.methods[f.attr]
            return None
        if isinstance(f, ast.Name):
            v = st.env.get(f.id)
            if isinstance(v, tuple) and v[0] == "closure":
                return v
            if v is None:
                for g in self.repo.funcs.get(f.id, []):
                    if g.module is fr.mod and g.cls is None and g.parent_fn is None:
                        return g
        return None

    def is_rewinding_cm(self, attr: str, depth=0) -> bool:
        """A stream method that is (a thin wrapper around) scoped_seek: `def peeking(self): return self.scoped_seek(..)`,
        or a context manager whose body is `with self.scoped_seek(..): yield`."""
        if attr == "scoped_seek":
            return True
        if depth > 2:
            return False
        hit = self._rewinders.get(attr)
        if hit is not None:
            return hit
        self._rewinders[attr] = False
        res = False
        for f in self.repo.funcs.get(attr, []):
            if f.cls is None or self.repo.lookup_method(f.cls, "scoped_seek") is None:
                continue
            body = [b for b in f.node.body if not (isinstance(b, ast.Expr) and isinstance(b.value, ast.Constant))]

            def wraps(call):
                return isinstance(call, ast.Call) and isinstance(call.func, ast.Attribute) and \
                    isinstance(call.func.value, ast.Name) and call.func.value.id == "self" and \
                    self.is_rewinding_cm(call.func.attr, depth + 1)
            if len(body) == 1 and isinstance(body[0], ast.Return) and wraps(body[0].value):
                res = True
            if len(body) == 1 and isinstance(body[0], ast.With) and any(wraps(i.context_expr) for i in body[0].items) \
                    and all(isinstance(x, ast.Expr) and isinstance(x.value, (ast.Yield, ast.YieldFrom)) for x in body[0].body):
                res = True
        self._rewinders[attr] = res
        return res

    def is_stream_ctor(self, call: ast.Call, st: Optional[St] = None) -> bool:
        """BufferWriter(..) / se.BufferReader(..), or self.X(..) / cls.X(..) where the class attribute X is bound to
        one of the stream classes (a hook point whose default is today's class)."""
        last = self._callee_last(call)
        if last in STREAM_CTORS:
            return True
        f = call.func
        if self.cls is not None and isinstance(f, ast.Attribute) and isinstance(f.value, ast.Name) and \
                (f.value.id in ("self", "cls") if st is None else st.env.get(f.value.id) == "@"):
            v = self.repo.class_attr(self.cls, f.attr)
            if isinstance(v, (ast.Name, ast.Attribute)):
                from .core import ap as _ap
                return (_ap(v) or "").split(".")[-1] in STREAM_CTORS
        return False

    def _returns_fresh_stream(self, node: ast.Call, st: St, fr: Frame) -> bool:
        m = self._resolve(node, st, fr)
        if m is None or isinstance(m, tuple):
            return False
        rets = [r for r in ast.walk(m.node) if isinstance(r, ast.Return)]
        return bool(rets) and all(isinstance(r.value, ast.Call) and self.is_stream_ctor(r.value) for r in rets)

    def _callable_class(self, node: ast.Call, st: St, fr: Frame) -> Optional[ClassInfo]:
        f = node.func
        if isinstance(f, ast.Name) and f.id in st.env:
            return None
        from .core import ap as _ap
        path = _ap(f)
        if not path or not path.replace(".", "").replace("_", "").isalnum():
            return None
        ci = self.repo.resolve_class(path, fr.mod)
        if ci is None or self.repo.lookup_method(ci, "__call__") is None:
            return None
        if self.repo.lookup_method(ci, "serialize") is not None:
            return None
        return ci

    def _deferred_callable(self, ci: ClassInfo, node: ast.Call, st: St, fr: Frame) -> List[St]:
        """An object with __call__ built where a closure would be: its constructor arguments are what the closure
        captured, its __call__ is the deferred body."""
        init = self.repo.lookup_method(ci, "__init__")
        bound: Dict[str, Any] = {}
        refs = []
        if init is not None:
            a = init.node.args
            params = (list(a.posonlyargs) + list(a.args))[1:]
            for i, arg in enumerate(node.args):
                if isinstance(arg, ast.Starred):
                    break
                if i < len(params):
                    bound[params[i].arg] = self._argval(arg, st, fr)
            for k in node.keywords:
                if k.arg:
                    bound[k.arg] = self._argval(k.value, st, fr)
        for arg in list(node.args) + [k.value for k in node.keywords]:
            if self.stream_of(arg, st) is not None:
                refs.append(arg.id if isinstance(arg, ast.Name) else self.sym(arg, st, fr))
        attrs: Dict[str, Any] = {}
        if init is not None:
            for n in ast.walk(init.node):
                if isinstance(n, (ast.Assign, ast.AnnAssign)):
                    tgt = n.targets[0] if isinstance(n, ast.Assign) else n.target
                    if isinstance(tgt, ast.Attribute) and isinstance(tgt.value, ast.Name) and tgt.value.id == "self" \
                            and isinstance(n.value, ast.Name) and n.value.id in bound:
                        attrs[tgt.attr] = bound[n.value.id]
        self.deferred.append((ci.name, f"{fr.mod.rel}:{node.lineno}", tuple(sorted(refs))))
        call = self.repo.lookup_method(ci, "__call__")
        key = call.full
        if fr.depth >= self.max_depth or key in fr.stack:
            return [st]
        a = call.node.args
        params = list(a.posonlyargs) + list(a.args)
        cenv: Dict[str, Any] = {p.arg: "<param>" for p in params[1:] + list(a.kwonlyargs)}
        if params:
            cenv[params[0].arg] = ("obj", tuple(sorted(attrs.items(), key=lambda kv: kv[0])))
        fr2 = self._frame(call, ci, call.module, fr.depth + 1, fr.stack + (key,))
        saved = st.env
        st.env = cenv
        out = []
        for r in self.block(call.node.body, [st], fr2):
            if r.status in ("n", "ret"):
                r.status = "n"
            elif r.status != "raise":
                continue
            r.env = dict(saved)
            out.append(r)
        return out or [st]

    def _argval(self, a, st: St, fr: Frame):
        ov = self._obj_attr(a, st)
        if ov is not None:
            return ov
        if isinstance(a, ast.Name) and isinstance(st.env.get(a.id), tuple):
            return st.env[a.id]
        return self.sym(a, st, fr)

    def try_inline(self, node: ast.Call, st: St, fr: Frame) -> Optional[List[St]]:
        m = self._resolve(node, st, fr)
        if m is None:
            return None
        if isinstance(m, tuple):
            return self._inline_closure(m[1], node.args, node.keywords, st, fr)
        if is_abstract(m) or fr.depth >= self.max_depth or m.full in fr.stack:
            return None
        a = m.node.args
        params = list(a.posonlyargs) + list(a.args)
        cenv: Dict[str, Any] = {}
        if m.cls is not None and m.parent_fn is None and not _is_static(m) and params:
            cenv[params[0].arg] = "@"
            params = params[1:]
        names = [p.arg for p in params] + [p.arg for p in a.kwonlyargs]
        for i, arg in enumerate(node.args):
            if isinstance(arg, ast.Starred):
                break
            if i < len(params):
                cenv[params[i].arg] = self._argval(arg, st, fr)
        for k in node.keywords:
            if k.arg in names:
                cenv[k.arg] = self._argval(k.value, st, fr)
        for n in names:
            cenv.setdefault(n, "<param>")
        if a.vararg:
            cenv[a.vararg.arg] = "<param>"
        if a.kwarg:
            cenv[a.kwarg.arg] = "<param>"
        self.inlined.add(m.full)
        fr2 = self._frame(m, m.cls, m.module, fr.depth + 1, fr.stack + (m.full,))
        saved = st.env
        st.env = cenv
        outer_depth = st.loopdepth
        out = []
        for r in self.block(m.node.body, [st], fr2):
            if r.status in ("n", "ret"):
                r.status = "n"
            elif r.status != "raise":
                continue
            r.env = dict(saved)
            r.loopdepth = outer_depth
            out.append(r)
        return out

    def _inline_closure(self, fn_node, args, keywords, st: St, fr: Frame, deferred=False) -> List[St]:
        key = f"{fr.mod.rel}::<closure {fn_node.name}@{id(fn_node)}>"
        a = fn_node.args
        params = list(a.posonlyargs) + list(a.args)
        if deferred:
            self.deferred.append((fn_node.name, f"{fr.mod.rel}:{fn_node.lineno}",
                                  self._stream_refs(fn_node.body, {p.arg for p in params + list(a.kwonlyargs)}, st)))
        if fr.depth >= self.max_depth or key in fr.stack:
            return [st]
        saved = dict(st.env)
        for i, arg in enumerate(args):
            if isinstance(arg, ast.Starred):
                break
            if i < len(params):
                st.env[params[i].arg] = self._argval(arg, st, fr)
        for k in keywords:
            if k.arg:
                st.env[k.arg] = self._argval(k.value, st, fr)
        for p in params + list(a.kwonlyargs):
            st.env.setdefault(p.arg, "<param>")
        fr2 = Frame(fr.fid, fr.fn, fr.dcls, fr.mod, fr.depth + 1, fr.stack + (key,))
        out = []
        for r in self.block(fn_node.body, [st], fr2):
            if r.status in ("n", "ret"):
                r.status = "n"
            elif r.status != "raise":
                continue
            r.env = dict(saved)
            out.append(r)
        return out


# ---------------------------------------------------------------------- word utilities

def words(states: Sequence[St]) -> Set[Tuple]:
    return {s.tok for s in states}


def canon(word: Tuple) -> Tuple:
    """Canonical form used for writer/reader comparison: byte counts and repeat counts dropped
    (the writer iterates the value, the reader a count); a one-byte raw read is a U8."""
    out = []
    for t in word:
        if t[0] == "E":
            out.append(t[1])
        elif t[0] == "B":
            out.append("U8" if t[1] == "1" else "bytes")
        elif t[0] == "X":
            out.append("!" + t[1])
        elif t[0] == "*":
            alts = sorted({canon(w) for w in t[3]} - {()}, key=repr)
            if alts:
                out.append(("*", t[1], tuple(alts)))
    changed = True
    while changed:
        changed = False
        for i, t in enumerate(out):
            if isinstance(t, tuple) and t and t[0] == "*":
                for w in t[2]:
                    n = len(w)
                    if n and tuple(out[i + 1:i + 1 + n]) == w:
                        del out[i + 1:i + 1 + n]
                        changed = True
                        break
                    if n and i >= n and tuple(out[i - n:i]) == w:
                        del out[i - n:i]
                        changed = True
                        break
            if changed:
                break
    return tuple(out)


def render(word) -> str:
    parts = []
    for t in word:
        if isinstance(t, str):
            parts.append(t)
        elif t[0] == "*":
            alts = t[-1]
            parts.append("(" + " | ".join(render(w) for w in alts) + ")*[" + t[1] + "]")
        elif t[0] == "E":
            parts.append(t[1])
        elif t[0] == "B":
            parts.append(f"bytes[{t[1]}]")
        else:
            parts.append("!" + t[1])
    return " ".join(parts) if parts else "<nothing>"


def render_set(ws) -> str:
    return "{" + " ; ".join(sorted(render(w) for w in ws)) + "}"


def opens_window(word) -> bool:
    """The path constructs a local stream window (paths that never do have no inner trace)."""
    for t in word:
        if t[0] == "O":
            return True
        if t[0] == "*" and any(opens_window(w) for w in t[3]):
            return True
    return False


def spec_syms(word) -> Set[str]:
    """All spec symbols ('E' events) occurring anywhere in a (raw) word."""
    out = set()
    for t in word:
        if t[0] == "E":
            out.add(t[1])
        elif t[0] == "*":
            for w in t[3]:
                out |= spec_syms(w)
    return out


def size_terms(word, ctx=()) -> Set[Tuple[Tuple[str, ...], str]]:
    """(loop context, size term) pairs of a raw reader word, for calc_size consistency."""
    out = set()
    for t in word:
        if t[0] == "E":
            out.add((ctx, f"size({t[1]})"))
        elif t[0] == "B":
            out.add((ctx, f"bytes:{t[1]}"))
        elif t[0] == "X":
            out.add((ctx, "!" + t[1]))
        elif t[0] == "*":
            k = t[1] if t[1] != "rep" else f"rep:{t[2]}"
            for w in t[3]:
                out |= size_terms(w, ctx + (k,))
    return out
