#!/usr/bin/env python3
"""Generate /verif/MANIFEST.json from the per-property table below (claimed = rules module exists)."""
import json
import os
import sys

VERIF = os.path.dirname(os.path.dirname(os.path.abspath(__file__)))
BASELINE_OFF = "cd /repo && /venv/bin/python -m pytest -ra -q -p no:cacheprovider --timeout=900 --continue-on-collection-errors"

# id -> (technique, decided clauses, not decided)
TABLE = {
    "C01": ("static table agreement + sibling walk/framing agreement + finite-domain evaluation of the fill branch + linear window bound",
            "type tables total and paired (MsgType/TYPE_SIZES/SPECS/template keywords), writer and reader walk the template identically and frame variables, block counts, header and ack trailer identically, default fill has the template's width for all 20 types, zero-coded header peek window covers the worst case",
            "value-level round-trip equality (float corner cases, text/binary guessing, flag/ack combinations as data)"),
    "C02": ("ownership (who-may-write) + CFG must-pass-through on exceptional exits + inverse-idiom check",
            "raw-body ownership, failed parse restores raw body on every exceptional path, lazy-parse trigger, one-terminator inverse idiom, trailing-block tolerance agreement",
            "byte identity of canonical zero-coding for arbitrary payloads; heuristics on arbitrary bytes"),
    "C03": ("loop guard dominance (bounded growth) + two-state emission typestate",
            "every growth of the decode buffer is dominated by the cap check and bounded per input byte; encoder emits 00 only at run start, counts in 1..255, flushes at end",
            "losslessness and agreement with the reference decoder on all inputs"),
    "C04": ("ownership + monotonicity + loop early-exit soundness + op-sequence symmetry",
            "injection list strictly ascending (single appender, guarded base), early exits match iteration order, forward/inverse shift symmetric, eviction accounting iff full",
            "the bijection law over all histories (arithmetic over runtime state)"),
    "C05": ("def-use role discipline + taint-style sanitiser-on-every-flow + control dependence + pairing",
            "forward/reverse tracker roles, every ack source->sink flow passes was_injected filter and get_original_id map, drop acks only reliable with untranslated id, unacked table insert/remove pairing, acks collected before forwarding",
            "interleaving-level truthfulness and resend cadence (time)"),
    "C06": ("constant-table agreement (SOCKS framing) + role/def-use + dominance + path counting on the CFG",
            "SOCKS5 UDP header emit/parse agree and reject reserved/fragmented/unknown-atyp, address roles, validity checks dominate dispatch and forwarding, at most one forward per datagram path, exactly one on the pass-through path",
            "content intact (C01/C02) and behaviour across sessions at run time"),
    "C07": ("who-may-call + try/except containment + typestate ownership + CFG path counting",
            "single guarded addon dispatch point, subscriber isolation in Event.notify, finalized/queued typestate writers and guards, forward tail guards, one road to the wire, handler failure isolation, first-truthy claim",
            "full product of hook behaviours x ownership operations"),
    "C08": ("sibling wire-trace agreement (serialize vs deserialize) + guard dominance + None-safety of size arithmetic",
            "per-class write/read trace agreement, reject-don't-truncate guards before length writes, calc_size totality, bounded reads, inner window leftover checks",
            "read(write(v)) == v over generated spec trees and values"),
    "C09": ("registry<->template table agreement + sign-safety dataflow + time-zone lint + field-order check",
            "all subfield registrations resolve to a template variable of a compatible wire kind, flag adapters on signed variables are sign-safe, date codecs tz-independent, switch/flag fields exist and precede, block cache coherence",
            "byte-for-byte fixed points of ~200 serializers on generated payloads; printed-literal clause"),
    "C10": ("op-sequence (affine inverse) abstract interpretation + constant evaluation of the instance table",
            "encode is the reversed affine inverse of decode with round-to-nearest, step = 1/(max-min), every constructed instance has lower<upper and consistent bit widths",
            "bit-exact encode(decode(raw)) == raw for all raws in IEEE arithmetic"),
    "C11": ("call-graph reachability to evaluation sinks + dominance of the safe-mode guard + syntax-constant agreement",
            "no path from from_human_string to eval/exec/compile/pickle except the guarded subfield_eval edge, formatter and parser share operator/comment/continuation syntax and registry key",
            "equality of re-encoded bodies for generated messages"),
    "C12": ("table agreement + isinstance-chain shadowing + tz lint + call resolution",
            "LLSD packer table paired and type-safe, binary tags emitted are parsed with equal formats, no unreachable type branch, tz-independent dates, newline escaping on every notation path",
            "value/type preservation for generated LLSD trees"),
    "C13": ("static translation validation: token stream of the hand-written reader vs the declarative template",
            "same field order, gates, widths and output keys in FastObjectUpdateCompressedDataDeserializer.read and ObjectUpdateCompressedDataSerializer.TEMPLATE",
            "equality on malformed payloads; value equality inside shared sub-templates"),
    "C14": ("index ownership + lock-step pairing + Engler-style optional-result contradiction + future lifecycle",
            "index writers frozen, ChildIDs/Children and lookup pairs updated together, None-checked lookups dereferenced consistently, futures cancelled for all keys, adoption/orphaning unconditional",
            "equality with a reference scene graph over all histories"),
    "C15": ("CFG must-pass-through (finally-resume) + typestate writers/asserts + field-set agreement",
            "every exit of pump_proxy_event after from_state passes the guarded resume, taken/resumed typestate, proxy-side finally, CapData and flow-state key agreement, metadata defaults",
            "mitmproxy's own state transfer and cross-process timing"),
    "C16": ("tuple-layout agreement + ordering + post-dominance of index rebuild + seed rewrite effects",
            "(CapType, url) layout at every producer/consumer, newest-first, every caps mutation followed by _recalc_caps, temporary caps consumed exactly, seed rewrite strips only proxy-only names and re-adds them",
            "resolution with prefix-related URLs across regions/sessions"),
    "C17": ("loop-shape (order-preserving total filter) + swap-take + object identity of cached payload + call-once",
            "each event swallowed or appended in order, injected events taken exactly once and merged after, undef-on-empty, cache stores the served payload under the request ack, region registered once",
            "exactly-once over poll histories with lost responses"),
    "C18": ("PEG ordered-choice shadowing + operator-table agreement + finite-domain truth tables + error discipline + ownership + key agreement",
            "no operator alternative shadowed by an earlier prefix, grammar operators = evaluator operators, Not/Or/And nodes are the boolean functions with and without short-circuit, inapplicable comparisons are False, view mutated only by its owners, export/import keys agree",
            "view equality across ring-buffer overflow"),
    "C19": ("control dependence + dominance + ownership",
            "ack depends only on reliable and precedes dedupe, every dispatch honours the dedupe verdict, both ack forms complete sends, packet id allocation owners, budget exhaustion fails the send",
            "delivery counts over arrival sequences"),
    "C20": ("exhaustive constant-table bijection + sibling pair/idiom agreement + framing constants + sibling completion rule",
            "lookup-name tables bijective for every member, schema field pairs both directions, reader/writer share the field source, Xfer framing constants, completion depends on chunk count in both managers, versioned animation option keys equal",
            "model equality after serialise-parse for generated inventories, animations and meshes"),
}


def main():
    with open(os.path.join(VERIF, "tools", "claimed.txt")) as f:
        allow = set(f.read().split())
    claimed = [p for p in sorted(TABLE) if p in allow
               and os.path.exists(os.path.join(VERIF, "hipposa", "rules", p.lower() + ".py"))]
    na_path = os.path.join(VERIF, "tools", "not_applicable.json")
    na_fixed = json.load(open(na_path)) if os.path.exists(na_path) else {}
    rd_path = os.path.join(VERIF, "tools", "rules_desc.json")
    rules_desc = json.load(open(rd_path)) if os.path.exists(rd_path) else {}
    checks = []
    for p in claimed:
        if p in na_fixed:
            continue
        tech, decided, undecided = TABLE[p]
        checks.append({
            "property_id": p,
            "quick_cmd": f"./check {p} --tier quick",
            "thorough_cmd": f"./check {p} --tier thorough",
            "evidence_file": f"/verif/evidence/{p}.json",
            "replay_cmd_template": f"./check {p} --replay {{path}}",
            "engine": "hipposa",
            "technique": "static analysis: " + tech,
            "level_claimed": {
                "category": "translation_validation" if p == "C13" else "other",
                "text": (f"Static analysis of /repo's current source, universally quantified over paths and table rows "
                         f"(not over runtime values). Decides these necessary structural clauses of {p}: {decided}. "
                         f"Rules as built ({len(rules_desc.get(p, []))}; catalogue in RULES.md): "
                         f"{', '.join(r['id'] for r in rules_desc.get(p, []))}. "
                         f"Does NOT decide: {undecided}. A violated clause provably breaks the property; a passing "
                         f"run shows the structural part holds on every path/row of the current tree. The thorough tier "
                         f"additionally self-tests every rule against a corpus of breaking and behaviour-preserving "
                         f"edits, the independently seeded changes under /verif/seeded and the behaviour-preserving "
                         f"refactorings under /verif/refactors, all applied to an in-memory overlay of the current tree."),
                "design_ref": f"DESIGN.md section 4 ({p}) and section 8",
            },
            "level_note": ("Trusted base: CPython ast, the checker's CFG / class-hierarchy construction (by-name "
                           "fallback for unresolved receivers), the anchor/owner tables frozen in hipposa/rules "
                           "(DESIGN.md Appendix A), Python semantics encoded in rules (enum.IntFlag on negatives, "
                           "naive datetime.timestamp(), PEG ordered choice). Structural necessary conditions only: "
                           "value-level behaviour is out of reach of this technique family."),
        })
    na = [{"property_id": p, "reason": na_fixed.get(p, "static check not built yet (work in progress)")}
          for p in sorted(TABLE) if p not in {c["property_id"] for c in checks}]
    man = {
        "version": 1,
        "setup_cmd": "sh -c 'if [ -x /venv/bin/python ]; then /venv/bin/python -m compileall -q hipposa; else python3 -m compileall -q hipposa; fi'",
        "hooks": {
            "guard": "HIPPOLYZER_VERIF",
            "enable": "none needed: the checks are static and read /repo's sources; no instrumentation exists in /repo",
            "baseline_off_cmd": BASELINE_OFF,
            "source_commits": [],
            "add_only": True,
        },
        "engines": [{
            "name": "hipposa",
            "path": "/verif/hipposa",
            "serves_properties": [c["property_id"] for c in checks],
            "kind_free_text": "repo-specific static analyser (pure stdlib): AST + class-hierarchy call resolution + statement CFG "
                              "with exception edges + constant/enum table evaluation + finite-domain mini-interpreter + "
                              "independent message_template.msg parser; self-test by overlay mutation",
        }],
        "checks": checks,
        "notes": "All checks are static analysis (no repository code is imported or executed). Exit 0 = all obligations "
                 "discharged or only known findings; 1 = VIOLATION; 2 = ANALYSIS-ERROR (vanished anchor / floor / unsupported construct).",
        "not_applicable": na,
    }
    with open(os.path.join(VERIF, "MANIFEST.json"), "w") as f:
        json.dump(man, f, indent=1)
    print(f"MANIFEST.json: {len(checks)} checks, {len(na)} not_applicable")


if __name__ == "__main__":
    main()
