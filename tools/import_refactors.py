#!/usr/bin/env python3
"""Copy behaviour-preserving refactor patches from /tmp/refac/Gx/out/<n> into /verif/refactors/Gx-<n>/."""
import json, os, shutil, sys, glob
VERIF = os.path.dirname(os.path.dirname(os.path.abspath(__file__)))
import sys
ROOT = sys.argv[1] if len(sys.argv) > 1 else "/tmp/refac"
TAG = sys.argv[2] if len(sys.argv) > 2 else ""
for src in sorted(glob.glob(ROOT + "/*/out/*")):
    if not os.path.exists(os.path.join(src, "patch.diff")):
        continue
    g = src.split("/")[3]; n = os.path.basename(src)
    dst = os.path.join(VERIF, "refactors", f"{g}-{TAG}{n}")
    os.makedirs(dst, exist_ok=True)
    for f in ("patch.diff", "notes.md"):
        if os.path.exists(os.path.join(src, f)):
            shutil.copy(os.path.join(src, f), os.path.join(dst, f))
    mp = os.path.join(dst, "meta.json")
    meta = json.load(open(mp)) if os.path.exists(mp) else {}
    meta.setdefault("kind", "behaviour-preserving refactoring written by an independent sub-agent (no access to /verif); "
                            "the full test suite passes with it; every check must stay silent on it")
    meta.setdefault("analysis_error_ok", {})
    json.dump(meta, open(mp, "w"), indent=1)
    print("imported", f"{g}-{TAG}{n}")
