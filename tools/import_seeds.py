#!/usr/bin/env python3
"""Copy confirmed seeded changes from /tmp/seed/Cxx/out/<n> into /verif/seeded/Cxx-<n>/ (patch.diff, demo.py,
notes.md, meta.json).  `expect` in meta.json is preserved if the entry already exists."""
import json, os, re, shutil, sys
VERIF = os.path.dirname(os.path.dirname(os.path.abspath(__file__)))
log = open(sys.argv[1]).read() if len(sys.argv) > 1 else ""
ROOT = sys.argv[2] if len(sys.argv) > 2 else "/tmp/seed"
TAG = sys.argv[3] if len(sys.argv) > 3 else ""
for line in log.splitlines():
    m = re.match(r"(C\d+)-(\d) base_demo=(\d+) patched_demo=(\d+) tests: (.*)", line)
    if not m:
        continue
    prop, n, base, pat, tests = m.groups()
    confirmed = base == "0" and pat != "0" and tests.startswith("331 passed")
    src = f"{ROOT}/{prop}/out/{n}"
    dst = os.path.join(VERIF, "seeded", f"{prop}-{TAG}{n}")
    if not confirmed:
        print("NOT CONFIRMED", line)
        continue
    os.makedirs(dst, exist_ok=True)
    for f in ("patch.diff", "demo.py", "notes.md"):
        if os.path.exists(os.path.join(src, f)):
            shutil.copy(os.path.join(src, f), os.path.join(dst, f))
    for f in os.listdir(src):   # helper modules a demo imports
        if f.endswith(".py") and f != "demo.py":
            shutil.copy(os.path.join(src, f), os.path.join(dst, f))
    mp = os.path.join(dst, "meta.json")
    meta = json.load(open(mp)) if os.path.exists(mp) else {}
    notes = open(os.path.join(src, "notes.md")).read() if os.path.exists(os.path.join(src, "notes.md")) else ""
    meta.update({
        "property": prop,
        "source": "independent sub-agent given only the property record and a scratch worktree of /repo (nothing from /verif)",
        "base_commit": os.environ.get("SEED_BASE", "b77b816 (pinned tree + fix: commits)"),
        "needs_to_manifest": meta.get("needs_to_manifest") or notes.strip().split("\n\n")[0][:600],
        "confirmed": {
            "applies": "git apply --check in a scratch worktree: ok",
            "test_suite_with_patch": tests,
            "demo_without_patch_exit": int(base),
            "demo_with_patch_exit": int(pat),
            "how": "cd <scratch worktree>; git apply patch.diff; /venv/bin/python demo.py; pytest -q tests "
                   "(test_mitmproxy_works deselected: fails offline on the baseline too); git checkout -- hippolyzer",
        },
    })
    meta.setdefault("expect", "miss")
    meta.setdefault("expect_reason", "")
    json.dump(meta, open(mp, "w"), indent=1)
    print("imported", f"{prop}-{TAG}{n}")
