#!/usr/bin/env python3
"""Run checks against patches through in-memory overlays (no scratch copies).

  matrix.py seeds  <root>      each <root>/Cxx/out/N/patch.diff against property Cxx
  matrix.py refac  <root>      each <root>/*/out/N/patch.diff against ALL 20 properties
Prints, per patch, the newly failing obligation keys (relative to the unpatched tree) or the analysis error.
"""
import glob
import multiprocessing as mp
import os
import re
import sys

sys.path.insert(0, os.path.dirname(os.path.dirname(os.path.abspath(__file__))))
from hipposa import engine, selftest  # noqa: E402
from hipposa.core import AnalysisError, Repo  # noqa: E402

ROOT = os.environ.get("REPO", "/repo")
_BASE = {}


def base_fail(prop):
    if prop not in _BASE:
        ctx = engine.run_rules(prop, Repo(ROOT), "quick")
        _BASE[prop] = set(engine.failing_keys(ctx))
    return _BASE[prop]


def run_one(args):
    patch, prop = args
    ov = selftest._overlay_from_patch(ROOT, patch)
    if ov is None:
        return patch, prop, "NOAPPLY", []
    try:
        ctx = engine.run_rules(prop, Repo(ROOT, overlay=ov), "quick")
        new = sorted(set(engine.failing_keys(ctx)) - base_fail(prop))
        return patch, prop, "ok", new
    except AnalysisError as e:
        return patch, prop, "ANALYSIS-ERROR: " + str(e)[:300], []
    except Exception as e:  # pragma: no cover
        return patch, prop, f"INTERNAL {type(e).__name__}: {e}"[:300], []


def main():
    mode, root = sys.argv[1], sys.argv[2]
    patches = sorted(glob.glob(os.path.join(root, "*", "out", "*", "patch.diff")))
    jobs = []
    for p in patches:
        if mode == "seeds":
            m = re.search(r"/(C\d+)/out/", p)
            jobs.append((p, m.group(1)))
        else:
            for prop in engine.PROPS:
                jobs.append((p, prop))
    for prop in {j[1] for j in jobs}:
        base_fail(prop)
    with mp.get_context("fork").Pool(16) as pool:
        res = pool.map(run_one, jobs, chunksize=1)
    cur = None
    for patch, prop, status, new in res:
        tag = "/".join(patch.split("/")[-4:-1])
        if mode == "seeds":
            verdict = "CAUGHT" if new else ("MISSED" if status == "ok" else status)
            print(f"{tag:18s} {prop} {verdict}")
            for k in new[:3]:
                print(f"      {k[:200]}")
        else:
            if status != "ok" or new:
                print(f"{tag:18s} {prop} {'ALARM' if new else status}")
                for k in new[:3]:
                    print(f"      {k[:200]}")
    if mode != "seeds":
        bad = sum(1 for _, _, s, n in res if s != "ok" or n)
        print(f"{len(patches)} patches x {len(engine.PROPS)} properties: {bad} alarm/error cells")


if __name__ == "__main__":
    main()
