#!/usr/bin/env python3
"""Set up the scratch worktrees and TASK.md files of a measurement round (lead only; nothing registered uses this).

  new_round.py seeds  <root>   -> <root>/Cxx/{TASK.md,PROPERTY.json}   (one git worktree of /repo per property)
  new_round.py refac  <root>   -> <root>/Gx/{TASK.md,PROPERTIES.json}  (one git worktree per property group)

The agents that work there get only these files: nothing from /verif.
"""
import glob
import json
import os
import re
import subprocess
import sys

VERIF = os.path.dirname(os.path.dirname(os.path.abspath(__file__)))
GROUPS = {"G1": ["C01", "C02", "C03"], "G2": ["C04", "C05", "C06", "C07", "C19"], "G3": ["C08", "C09", "C10", "C13"],
          "G4": ["C11", "C12", "C20"], "G5": ["C14", "C15", "C16", "C17", "C18"]}
SUITE = ("timeout 300 /venv/bin/python -m pytest -q -p no:cacheprovider --deselect "
         "tests/proxy/integration/test_http.py::TestMITMProxy::test_mitmproxy_works tests")

SEED_TASK = '''# Task

You are working in a scratch git worktree of the SaladDais/Hippolyzer repository at WT
(Python 3.12; interpreter /venv/bin/python). Work ONLY inside WT. Never read or write /repo or /verif.

Run the test suite with:
    cd WT && SUITE
(331 pass; `tests/proxy/integration/test_http.py::TestMITMProxy::test_mitmproxy_works` always fails in this
offline sandbox - ignore that one. An offline integration test is occasionally flaky under load: re-run once before concluding.)

WT/PROPERTY.json holds one semantic property of this code base that must always hold (statement, quantifier,
why tests can't settle it, and anchors = where in the code it is implemented).

Produce THREE different, independent changes to the library source (under hippolyzer/) that each BREAK this
property while the code still imports and the whole existing test suite still passes (do not edit tests).
Each change must be:
 * realistic - the kind of regression a plausible refactor / optimisation / feature addition / well-meant bug-fix
   would introduce in a real pull request (it may come with the innocent-looking surrounding edits such a PR has);
 * subtle - a reviewer skimming the diff would likely approve it;
 * latent - it needs something specific to manifest (a particular input or value, a multi-step history, a fault or an
   interleaving, two cooperating sites) - NOT something ordinary use would expose at once.
Use different mechanisms / code sites for the three changes, and prefer different clauses of the property.
You are free in the choice of mechanism. Think about what would REALLY happen to this code base: a performance pass
(caching, buffer reuse, fast paths, batching), a robustness pass (more tolerant parsing, swallowed errors, retries,
limits), a feature (new message / field / flag / option handled in one place but not its sibling), a clean-up (dead
code removal that was not dead, merged branches, simplified conditions, unified helpers), a port (py-version idioms,
typing-driven signature changes), a protocol tweak (field width, order, default) applied on one side only.

For each change i in {1, 2, 3} deliver in WT/out/<i>/ :
 * patch.diff - `git diff` against HEAD; must apply with `git apply` from the worktree root.
 * demo.py    - standalone script, run as `/venv/bin/python out/<i>/demo.py` from the worktree root: exits 0 when
                the property holds, exits non-zero with a one-line message when violated. It must FAIL with the
                patch applied and PASS on the unmodified HEAD. It must exercise the real library code of THIS worktree:
                `import hippolyzer` resolves to an editable install of /repo unless the worktree root is first on
                sys.path, so every demo.py must insert the worktree root (derived from __file__) at the front of
                sys.path and assert hippolyzer was imported from there.
 * notes.md   - what clause it breaks, what it needs in order to manifest, and the test-suite result with the patch.

Verify both directions yourself (apply patch -> full suite passes as before and demo fails; `git checkout -- hippolyzer`
-> demo passes). Leave the worktree clean at the end (`git checkout -- hippolyzer`), keeping only out/ (untracked).
Never use `git stash` (the worktrees share it). Always run pytest under `timeout 300`.
Final reply: a brief summary of the three changes (file/function touched, trigger needed). If, while reading the code,
you notice something on HEAD that already violates the property, mention it at the end (do not build a change on it).

'''

REFAC_TASK = '''# Task: behaviour-preserving pull requests

You are working in a scratch git worktree of the SaladDais/Hippolyzer repository at WT (Python 3.12; interpreter
/venv/bin/python). Work ONLY inside WT. Never read or write /repo or /verif. Never use `git stash`.

Run the test suite with:
    cd WT && SUITE
(331 pass; `tests/proxy/integration/test_http.py::TestMITMProxy::test_mitmproxy_works` always fails offline - ignore it. An
offline integration test is occasionally flaky under load: re-run once before concluding.)
`import hippolyzer` resolves to an editable install of /repo unless the worktree root is first on sys.path: run any
differential script with PYTHONPATH set to the worktree root.

WT/PROPERTIES.json lists semantic properties of this code base (statement + anchors = where the code implementing them
lives). Produce EIGHT independent **behaviour-preserving pull requests** against the code that implements these properties -
each the size and mix a real maintainer PR has: 40-150 changed lines, combining two or three kinds of change in one
patch (for example: extract a helper AND rename its locals AND turn a loop into a comprehension; move a class to a new
module AND convert its flag pair to an enum; replace a tuple by a NamedTuple AND update all consumers AND add type
hints/asserts that cannot fail; split a long function AND introduce early returns AND hoist constants; add a fast
path that is provably equivalent; add logging/metrics hooks that cannot fail or re-order effects; add an optional
parameter whose default reproduces today's behaviour; generalise a function and re-express the old one through it).
Pick whatever a maintainer would plausibly do to THIS code (performance clean-up, readability, typing, testability,
dependency injection, de-duplication). Spread the eight over the different properties / anchor functions.
Each must leave every property and all observable behaviour - results, exceptions raised and their types, evaluation
order of side effects, aliasing, log records - exactly intact. Do not "fix" anything and do not change behaviour in
corner cases either. Differential-test each patch against HEAD on generated inputs wherever possible.

For each PR i in 1..8 deliver in WT/out/<i>/ :
 * patch.diff - `git diff` against HEAD for that PR alone (new files included: use `git add -N` before diffing);
                must apply with `git apply` from the worktree root.
 * notes.md   - what was changed (files/functions), which kinds of change, and why it is behaviour-preserving.
Verify for each: apply -> full suite passes as before; then `git checkout -- hippolyzer` and remove any new untracked
files under hippolyzer/ before the next one. Leave the worktree clean at the end, keeping only out/ (untracked).
Always run pytest under `timeout 300`. Final reply: one line per patch. If, while reading the code, you notice something
on HEAD that already violates one of the properties, mention it at the end (do not change it).
'''


def sites(glob_pat):
    out = {}
    for pf in glob.glob(glob_pat):
        cur = None
        for line in open(pf):
            if line.startswith("+++ b/"):
                cur = os.path.basename(line[6:].strip())
            m = re.match(r"@@ .* @@ (.*)", line)
            if m and cur and m.group(1).strip():
                k = f"{cur}: {m.group(1).strip()}"
                out[k] = out.get(k, 0) + 1
    return out


def worktree(wt):
    if not os.path.isdir(wt):
        subprocess.run(["git", "-C", "/repo", "worktree", "add", "--detach", "-q", wt, "HEAD"], check=True)


def main():
    mode, root = sys.argv[1], sys.argv[2]
    props = [json.loads(l) for l in open(os.path.join(VERIF, "properties.jsonl"))]
    os.makedirs(root, exist_ok=True)
    if mode == "seeds":
        for p in props:
            wt = f"{root}/{p['id']}"
            worktree(wt)
            json.dump(p, open(f"{wt}/PROPERTY.json", "w"), indent=1)
            st = sites(f"{VERIF}/seeded/{p['id']}-*/patch.diff")
            st.update({k: v for k, v in sites(f"{VERIF}/seeded/{p['id']}/patch.diff").items() if k not in st})
            extra = ("Earlier rounds already produced changes for this property; the places they touched are listed below with "
                     "how often. Heavily used places (3+) are exhausted: prefer code the property depends on that has been touched "
                     "little or not at all (callers, helpers, sibling implementations, data tables, modules the anchors import), "
                     "or a genuinely new mechanism. Do not produce a trivial variation of the obvious mutation at an anchored "
                     "line.\nPrior sites:\n" + "".join(f" * ({n}x) {s}\n" for s, n in sorted(st.items())))
            open(f"{wt}/TASK.md", "w").write(SEED_TASK.replace("WT", wt).replace("SUITE", SUITE) + extra)
    else:
        P = {p["id"]: p for p in props}
        for g, ids in GROUPS.items():
            wt = f"{root}/{g}"
            worktree(wt)
            json.dump([{k: P[i][k] for k in ("id", "title", "statement", "anchors")} for i in ids],
                      open(f"{wt}/PROPERTIES.json", "w"), indent=1)
            st = sites(f"{VERIF}/refactors/{g}-*/patch.diff")
            extra = ("\nEarlier rounds already refactored the places listed below (with how often). Prefer functions that were "
                     "touched little, and for the heavily touched ones pick a different kind of change than the obvious one.\n"
                     "Prior places:\n" + "".join(f" * ({n}x) {s}\n" for s, n in sorted(st.items())))
            open(f"{wt}/TASK.md", "w").write(REFAC_TASK.replace("WT", wt).replace("SUITE", SUITE) + extra)
    print("ok")


if __name__ == "__main__":
    main()
