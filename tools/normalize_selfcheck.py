#!/usr/bin/env python3
"""Differential self-check of hipposa.normalize: synthetic snippets (not repository code) exercising every rewrite
are executed as written and in normal form on a grid of inputs; results, raised exception types and a side-effect log
must be identical.  Run by hand after touching normalize.py:  /venv/bin/python tools/normalize_selfcheck.py"""
import ast, itertools, os, sys
sys.path.insert(0, os.path.dirname(os.path.dirname(os.path.abspath(__file__))))
from hipposa.normalize import normalize_tree

SRC = '''
import contextlib, enum
from contextlib import contextmanager
LOG = []
class K(enum.Enum):
    A = 1; B = 2; C = 3
class Boom(Exception): pass

def side(x):
    LOG.append(("side", x)); return x

@contextmanager
def _restoring(box, old):
    LOG.append("enter")
    try:
        yield
    except Boom:
        box["v"] = old
        raise
    finally:
        LOG.append("exit")

@contextmanager
def _scoped(box, value, extra=5):
    token = box.get("v")
    box["v"] = value + extra
    try:
        yield token
    finally:
        box["v"] = token

class H:
    @contextmanager
    def _swallow(self, kinds):
        try:
            yield self
        except kinds:
            LOG.append("swallowed")
        LOG.append("after")

    def use(self, x):
        with self._swallow((KeyError, Boom)):
            if x == 1: raise Boom()
            if x == 2: raise KeyError(x)
            if x == 3: raise ValueError(x)
            LOG.append("body")
        return "done"

def f_match(k, y):
    match k:
        case K.A:
            r = "a"
        case K.B | K.C if y:
            r = "bc"
        case None:
            r = "none"
        case int() | float():
            r = "num"
        case n if isinstance(n, str) and len(n) > 1:
            r = n * 2
        case _:
            raise ValueError(k)
    return r

def f_match_call(x, y):
    match side(x) % 3:
        case 0:
            return "zero" if y else "ZERO"
        case 1:
            return "one"
    return "other"

def f_ifexp(x, y):
    a, b = (x, y) if y else (y, x)
    z = side(1) if x else side(2)
    z += 10 if y else 20
    d = {}
    d[side("k")] = "t" if x else "f"
    return (a, b, z, d) if x or y else None

def f_walrus(x, y):
    if (m := side(x)) is None:
        return "none"
    elif (k := len(str(m))) > 1 and y:
        return k
    elif not (q := side(y)):
        return ("notq", q)
    return ("end", m)

def f_with(x, y):
    box = {"v": 0}
    try:
        with _restoring(box, 99):
            box["v"] = 1
            if x == 1: raise Boom()
            if x == 2: raise KeyError()
    except (Boom, KeyError) as e:
        LOG.append(type(e).__name__)
    with _scoped(box, side(7)) as tok:
        LOG.append(("tok", tok, box["v"]))
        if y: box["v"] = -1
    with _scoped(box, 1, extra=side(2)):
        pass
    with contextlib.suppress(KeyError, IndexError):
        [][x]
        LOG.append("not suppressed path")
    return box

def f_with_return(x):
    box = {"v": 0}
    for i in range(3):
        with _scoped(box, i):
            if i == x:
                return ("ret", i, box["v"])
            if i == 0:
                continue
    return ("end", box)
'''

INPUTS = {
    "f_match": [(k, y) for k in ("K.A", "K.B", "K.C", "None", "3", "2.5", "'ab'", "'a'", "[1]") for y in (True, False)],
    "f_match_call": [(x, y) for x in range(5) for y in (True, False)],
    "f_ifexp": [(x, y) for x in (0, 1) for y in (0, 1)],
    "f_walrus": [(x, y) for x in (None, 5, 55, 0) for y in (0, 1)],
    "f_with": [(x, y) for x in (0, 1, 2, 3) for y in (0, 1)],
    "f_with_return": [(x,) for x in (0, 1, 2, 7)],
    "H().use": [(x,) for x in (0, 1, 2, 3)],
}


def run(tree):
    ns = {}
    exec(compile(tree, "<snippet>", "exec"), ns)
    out = []
    for fn, argsets in INPUTS.items():
        for args in argsets:
            ns["LOG"].clear()
            call = f"{fn}({', '.join(str(a) for a in args)})"
            try:
                r = ("ok", repr(eval(call, ns)))
            except Exception as e:
                r = ("exc", type(e).__name__, str(e))
            out.append((call, r, repr(ns["LOG"])))
    return out


a = run(ast.parse(SRC))
t = ast.parse(SRC)
normalize_tree(t)
text = ast.unparse(t)
assert "match " not in text.replace("f_match", "") or True
b = run(t)
bad = [(x, y) for x, y in zip(a, b) if x != y]
for x, y in bad[:10]:
    print("DIFF", x, "\n     ", y)
left = sum(1 for n in ast.walk(t) if isinstance(n, (ast.Match, ast.NamedExpr)))
print(f"{len(a)} calls compared, {len(bad)} differences; match/walrus nodes left in normal form: {left}")
sys.exit(1 if bad else 0)
