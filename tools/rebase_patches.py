#!/usr/bin/env python3
"""Re-base kept seeded / refactor patches that stopped applying after a `fix:` commit (lead only; nothing registered
uses this).  For each <dir>/patch.diff that `git apply --check` rejects on /repo HEAD: three-way apply it in a scratch
worktree (the blobs named in the patch's index lines are in the object store because every base was a commit), and on
a clean merge rewrite patch.diff as the diff against HEAD and note `rebased_onto` in meta.json.  Conflicts are listed
and left alone (they stay "inapplicable" in the self-test)."""
import json
import os
import subprocess
import sys

WT = "/tmp/rebase_wt"


def sh(*a, cwd=None, check=False):
    return subprocess.run(a, cwd=cwd, capture_output=True, text=True, check=check)


def main():
    dirs = sys.argv[1:]
    head = sh("git", "-C", "/repo", "rev-parse", "--short", "HEAD").stdout.strip()
    if not os.path.isdir(WT):
        sh("git", "-C", "/repo", "worktree", "add", "--detach", "-q", WT, "HEAD", check=True)
    sh("git", "checkout", "-q", "--detach", head, cwd=WT)
    for d in dirs:
        p = os.path.join(d, "patch.diff")
        if sh("git", "apply", "--check", p, cwd=WT).returncode == 0:
            continue
        sh("git", "reset", "-q", "--hard", cwd=WT)
        sh("git", "clean", "-fdq", "hippolyzer", cwd=WT)
        r = sh("git", "apply", "--3way", p, cwd=WT)
        conflict = r.returncode != 0 or "<<<<<<<" in sh("git", "diff", cwd=WT).stdout
        if conflict:
            print("CONFLICT", d)
            sh("git", "reset", "-q", "--hard", cwd=WT)
            continue
        sh("git", "add", "-A", "hippolyzer", cwd=WT)
        diff = sh("git", "diff", "--cached", "HEAD", cwd=WT).stdout
        sh("git", "reset", "-q", "--hard", cwd=WT)
        if not diff.strip():
            print("EMPTY", d)
            continue
        open(p, "w").write(diff)
        mp = os.path.join(d, "meta.json")
        if os.path.exists(mp):
            m = json.load(open(mp))
            m["rebased_onto"] = head
            json.dump(m, open(mp, "w"), indent=1)
        print("rebased", d)


if __name__ == "__main__":
    main()
