#!/usr/bin/env python3
"""Record, per property, the digest of the files the self-test corpus edits (validated tree)."""
import json, os, sys
sys.path.insert(0, os.path.dirname(os.path.dirname(os.path.abspath(__file__))))
from hipposa import selftest, engine
root = os.environ.get("REPO", "/repo")
out = {}
for p in engine.PROPS:
    vs = selftest.load_variants(p)
    out[p] = selftest.tree_digest(root, selftest.variant_files(vs))
with open(os.path.join(engine.VERIF, "selftest_digest.json"), "w") as f:
    json.dump(out, f, indent=1)
print("wrote selftest_digest.json")
