#!/bin/sh
# usage: try_patch.sh <patch.diff> <Cxx> [extra check args]  - run a check against a scratch copy with the patch applied
set -e
P="$1"; ID="$2"; shift 2
S=$(mktemp -d /dev/shm/hsa.XXXXXX)
trap 'rm -rf "$S"' EXIT
mkdir -p "$S/repo"
cp -r /repo/hippolyzer "$S/repo/hippolyzer"
(cd "$S/repo" && patch -s -p1 < "$P")
cd /verif && ./check "$ID" --repo "$S/repo" --no-evidence "$@" || echo "exit=$?"
