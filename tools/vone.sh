#!/bin/bash
# usage: vone.sh <seedroot> <Cxx> <n>
W=$1/$2; n=$3; cd $W; git checkout -q -- hippolyzer
/venv/bin/python out/$n/demo.py >/dev/null 2>&1; base=$?
git apply out/$n/patch.diff
/venv/bin/python out/$n/demo.py >/dev/null 2>&1; pat=$?
res=$(timeout 300 /venv/bin/python -m pytest -q -p no:cacheprovider --deselect tests/proxy/integration/test_http.py::TestMITMProxy::test_mitmproxy_works tests 2>&1 | tail -1)
git checkout -q -- hippolyzer
echo "$2-$n base_demo=$base patched_demo=$pat tests: $res"
