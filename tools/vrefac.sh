#!/bin/bash
# usage: vrefac.sh <root> <G>   : suite with each patch of group G (in the group's worktree)
W=$1/$2; cd $W; git checkout -q -- hippolyzer; git clean -fdq hippolyzer
for d in out/[0-9]*; do
  n=$(basename $d)
  git apply $d/patch.diff || { echo "$2-$n NOAPPLY"; git checkout -q -- hippolyzer; git clean -fdq hippolyzer; continue; }
  res=$(timeout 400 /venv/bin/python -m pytest -q -p no:cacheprovider --deselect tests/proxy/integration/test_http.py::TestMITMProxy::test_mitmproxy_works tests 2>&1 | tail -1)
  git checkout -q -- hippolyzer; git clean -fdq hippolyzer
  echo "$2-$n tests: $res"
done
